package jsonparser

import (
	stdjson "encoding/json"
)

// verifST_jsonmodel validates the JSON string-literal model used by the C09 harnesses against the real encoding/json
// (run natively by `sv selftest C09`, never by the symbolic executor): for every string of length 0..2 over the
// model's alphabet and every string of length 3..4 over the protocol-significant characters, verifEscape equals
// json.Marshal; and for every byte string of length 0..6 over the structural characters, verifParseStrings accepts
// exactly what json.Unmarshal into []string accepts, with the same result.
func verifST_jsonmodel() {
	var alpha []byte
	for c := 0; c < 256; c++ {
		if verifAlpha(byte(c)) {
			alpha = append(alpha, byte(c))
		}
	}
	check := func(s string) {
		real, err := stdjson.Marshal(s)
		verifAssert(err == nil && string(real) == string(verifEscape(s)), "model escape equals json.Marshal")
		var out []string
		err = stdjson.Unmarshal([]byte("["+string(real)+"]"), &out)
		got, ok := verifParseStrings([]byte("[" + string(real) + "]"))
		verifAssert(err == nil && ok && len(out) == 1 && len(got) == 1 && out[0] == s && got[0] == s, "model parse inverts the escape like json.Unmarshal")
	}
	check("")
	for _, a := range alpha {
		check(string([]byte{a}))
		for _, b := range alpha {
			check(string([]byte{a, b}))
		}
	}
	special := []byte{'a', '"', '\\', '/', ',', '[', ']', ' '}
	var rec func(cur []byte, n int)
	rec = func(cur []byte, n int) {
		if n == 0 {
			check(string(cur))
			return
		}
		for _, c := range special {
			rec(append(cur, c), n-1)
		}
	}
	rec(nil, 3)
	rec(nil, 4)
	// acceptance: arbitrary structural byte strings
	structural := []byte{'[', ']', '"', '\\', ',', 'a', '/'}
	var rec2 func(cur []byte, n int)
	rec2 = func(cur []byte, n int) {
		if n == 0 {
			data := append(append([]byte{'['}, cur...), ']')
			var out []string
			err := stdjson.Unmarshal(data, &out)
			got, ok := verifParseStrings(data)
			same := (err == nil) == ok
			if same && ok {
				same = len(out) == len(got)
				for i := 0; same && i < len(out); i++ {
					same = out[i] == got[i]
				}
			}
			if !same {
				println("VERIF-SELFTEST-INPUT: " + string(data))
			}
			verifAssert(same, "model parser accepts exactly what json.Unmarshal accepts, with the same strings")
			return
		}
		for _, c := range structural {
			rec2(append(cur, c), n-1)
		}
	}
	for n := 0; n <= 6; n++ {
		rec2(nil, n)
	}
}
