package jsonparser

import (
	"github.com/karagenc/socket.io-go/parser"
)

// C10_header: no byte string a peer can send as the first frame of a packet makes Parser.Add panic.
// data ranges over ALL byte values, length 0..L.
//
//verif:unwind 14
func verifH_C10_header() {
	L := 5
	if verifThorough() {
		L = 8
	}
	n := verifChoose(0, L)
	data := verifBytes(n)
	p := &Parser{json: verifOpaqueJSON{}}
	finished := 0
	err := p.Add(data, func(h *parser.PacketHeader, ev string, dec parser.Decode) { finished++ })
	verifAssert(err == nil || finished == 0, "an error return never comes with a finished packet")
	verifAssert(finished <= 1, "finish at most once per frame")
	verifReach("end")
}
