package jsonparser

import (
	"io"
	"reflect"

	"github.com/karagenc/socket.io-go/parser/json/serializer"
)

// verifPHJSON is the JSON library seen from the placeholder arithmetic: whatever the peer wrote as
// {"_placeholder":b,"num":N} arrives as ANY bool and ANY int.
type verifPHJSON struct {
	num int
	ph  bool
}

func (j *verifPHJSON) Marshal(v any) ([]byte, error) { return []byte("null"), nil }
func (j *verifPHJSON) Unmarshal(data []byte, v any) error {
	if p, ok := v.(*placeholder); ok {
		p.Num, p.Placeholder = j.num, j.ph
	}
	return nil
}
func (j *verifPHJSON) NewEncoder(w io.Writer) serializer.JSONEncoder { return nil }
func (j *verifPHJSON) NewDecoder(r io.Reader) serializer.JSONDecoder { return nil }

// C10_placeholder_typed: a typed Binary argument whose placeholder number is ANY int (negative, huge, MaxInt): the
// decoder never panics; it either hands over exactly the attachment the number designates or fails with an error.
//
//verif:unwind 12
func verifH_C10_placeholder_typed() {
	nb := verifChoose(1, 4) // buffers[0] is the JSON payload, the rest are attachments
	bufs := make([][]byte, nb)
	for i := range bufs {
		bufs[i] = []byte{byte(i)}
	}
	num := verifAnyInt()
	r := &reconstructor{buffers: bufs, json: &verifPHJSON{num: num, ph: verifAnyBool()}}
	b := Binary(`{"_placeholder":true,"num":0}`)
	called := 0
	var got []byte
	err := r.reconstructBinaryValue(reflect.ValueOf(b), reflect.ValueOf(&b), func(x []byte) error {
		called++
		got = x
		return nil
	})
	if err == nil {
		verifAssert(called == 1, "a resolved placeholder hands over one attachment")
		verifAssert(num >= 0 && num < nb-1, "only a placeholder number that designates an attachment is resolved; anything else is an error")
		if num >= 0 && num < nb-1 {
			verifAssert(len(got) == 1 && got[0] == byte(num+1), "the attachment handed over is the one the placeholder designates")
		}
	} else {
		verifAssert(called == 0, "a refused placeholder hands over nothing")
	}
	verifReach("end")
}

// C10_placeholder_map: the same through the untyped path (map[string]any): {"k": {"_placeholder": b, "num": f}} with f ANY
// float64 (NaN, infinities, negative, 2^63 included) and both key orders.
//
//verif:unwind 12
//verif:maporder all
func verifH_C10_placeholder_map() {
	nb := verifChoose(1, 3)
	bufs := make([][]byte, nb)
	for i := range bufs {
		bufs[i] = []byte{byte(i)}
	}
	f := verifAnyFloat64()
	ph := verifAnyBool()
	inner := map[string]any{"_placeholder": ph, "num": f}
	outer := map[string]any{"k": inner}
	r := &reconstructor{buffers: bufs, json: &verifPHJSON{}}
	err := r.reconstructMap(reflect.ValueOf(outer))
	if err == nil {
		if b, isBytes := outer["k"].([]byte); isBytes {
			verifAssert(ph, "only a true placeholder is replaced")
			verifAssert(f >= 0 && f < float64(nb-1), "only a placeholder number that designates an attachment is resolved; anything else is an error")
			if f >= 0 && f < float64(nb-1) {
				verifAssert(len(b) == 1 && b[0] == byte(int(f)+1), "the attachment put in place is the one the placeholder designates")
			}
		}
	}
	verifReach("end")
}
