package jsonparser

import (
	stdjson "encoding/json"
	"io"
	"reflect"

	"github.com/karagenc/socket.io-go/parser"
	"github.com/karagenc/socket.io-go/parser/json/serializer"
)

// ---- argument trees with sio.Binary leaves (the shapes of the C09 quantifier) ----

type verifWS struct {
	B Binary
	N int
}

type verifWS2 struct {
	A Binary
	S string
	B Binary
}

type verifWS3 struct {
	P *verifWS
	I any
}

const (
	verifModeJSON = 0 // what encoding/json writes: Binary.MarshalJSON emits its bytes raw, pointers are followed
	verifModeRef  = 1 // the Socket.IO v5 form: the n-th Binary leaf (walk order) is {"_placeholder":true,"num":n}
	verifModeSnap = 2 // a snapshot for comparing values: like JSON, but pointers are marked and Binary bytes are length-prefixed
)

func verifPlaceholderText(n int) []byte {
	return append(append([]byte(`{"_placeholder":true,"num":`), verifDec(uint64(n))...), '}')
}

// verifRender renders the harness's value shapes. It is the JSON library of the walk harness (mode JSON), the reference
// encoder (mode Ref) and the value snapshot (mode Snap); verifST_walkrender compares mode JSON with encoding/json.
func verifRender(v any, mode int, ph *int) []byte {
	bin := func(b Binary) []byte {
		switch mode {
		case verifModeRef:
			out := verifPlaceholderText(*ph)
			*ph++
			return out
		case verifModeSnap:
			return append(append(append([]byte{'<'}, verifDec(uint64(len(b)))...), ':'), append([]byte(b), '>')...)
		}
		if b == nil {
			return []byte("null")
		}
		return b
	}
	ptr := func(inner []byte) []byte {
		if mode == verifModeSnap {
			return append([]byte{'*'}, inner...)
		}
		return inner
	}
	list := func(n int, at func(i int) any) []byte {
		out := []byte{'['}
		for i := 0; i < n; i++ {
			if i > 0 {
				out = append(out, ',')
			}
			out = append(out, verifRender(at(i), mode, ph)...)
		}
		return append(out, ']')
	}
	switch x := v.(type) {
	case nil:
		return []byte("null")
	case string:
		return verifEscape(x)
	case int:
		return verifDec(uint64(x))
	case bool:
		if x {
			return []byte("true")
		}
		return []byte("false")
	case Binary:
		return bin(x)
	case *Binary:
		if x == nil {
			return []byte("null")
		}
		return ptr(bin(*x))
	case *placeholder:
		return verifPlaceholderText(x.Num)
	case []any:
		if x == nil {
			return []byte("null")
		}
		return list(len(x), func(i int) any { return x[i] })
	case *[]any:
		return ptr(verifRender(*x, mode, ph))
	case []Binary:
		if x == nil {
			return []byte("null")
		}
		return list(len(x), func(i int) any { return x[i] })
	case []*verifWS:
		if x == nil {
			return []byte("null")
		}
		return list(len(x), func(i int) any { return x[i] })
	case [][]any:
		if x == nil {
			return []byte("null")
		}
		return list(len(x), func(i int) any { return x[i] })
	case map[string]any:
		// keys in sorted order, as encoding/json writes them
		out := []byte{'{'}
		for i, k := range verifSortedKeys(len(x), func(yield func(string)) {
			for k := range x {
				yield(k)
			}
		}) {
			if i > 0 {
				out = append(out, ',')
			}
			out = append(append(out, verifEscape(k)...), ':')
			out = append(out, verifRender(x[k], mode, ph)...)
		}
		return append(out, '}')
	case map[string]Binary:
		out := []byte{'{'}
		for i, k := range verifSortedKeys(len(x), func(yield func(string)) {
			for k := range x {
				yield(k)
			}
		}) {
			if i > 0 {
				out = append(out, ',')
			}
			out = append(append(out, verifEscape(k)...), ':')
			out = append(out, verifRender(x[k], mode, ph)...)
		}
		return append(out, '}')
	case verifWS:
		out := append([]byte(`{"B":`), verifRender(x.B, mode, ph)...)
		out = append(append(out, `,"N":`...), verifDec(uint64(x.N))...)
		return append(out, '}')
	case *verifWS:
		if x == nil {
			return []byte("null")
		}
		return ptr(verifRender(*x, mode, ph))
	case verifWS2:
		out := append([]byte(`{"A":`), verifRender(x.A, mode, ph)...)
		out = append(append(out, `,"S":`...), verifEscape(x.S)...)
		out = append(append(out, `,"B":`...), verifRender(x.B, mode, ph)...)
		return append(out, '}')
	case *verifWS2:
		if x == nil {
			return []byte("null")
		}
		return ptr(verifRender(*x, mode, ph))
	case verifWS3:
		out := append([]byte(`{"P":`), verifRender(x.P, mode, ph)...)
		out = append(append(out, `,"I":`...), verifRender(x.I, mode, ph)...)
		return append(out, '}')
	case *verifWS3:
		if x == nil {
			return []byte("null")
		}
		return ptr(verifRender(*x, mode, ph))
	}
	verifAssert(false, "harness: verifRender reached a shape it does not know")
	return nil
}

// verifSortedKeys collects the keys of a map and sorts them (insertion sort: the maps of the menu have at most 2 keys).
func verifSortedKeys(n int, each func(yield func(string))) []string {
	keys := make([]string, 0, n)
	each(func(k string) { keys = append(keys, k) })
	for i := 1; i < len(keys); i++ {
		for j := i; j > 0 && keys[j] < keys[j-1]; j-- {
			keys[j], keys[j-1] = keys[j-1], keys[j]
		}
	}
	return keys
}

// verifWalkJSON is the JSON library handed to the parser: Marshal/Encode render structurally (mode JSON); Unmarshal
// understands the placeholder object and, for the round trip, fills typed targets from a prepared value.
type verifWalkJSON struct {
	fill func(targets []any)
}

func (j *verifWalkJSON) Marshal(v any) ([]byte, error) { return verifRender(v, verifModeJSON, nil), nil }

func (j *verifWalkJSON) Unmarshal(data []byte, v any) error {
	switch t := v.(type) {
	case *placeholder:
		// {"_placeholder":true,"num":N} with a concrete N
		pre := `{"_placeholder":true,"num":`
		if len(data) < len(pre)+2 || string(data[:len(pre)]) != pre || data[len(data)-1] != '}' {
			return errVerifJSON
		}
		n := 0
		for _, c := range data[len(pre) : len(data)-1] {
			if c < '0' || c > '9' {
				return errVerifJSON
			}
			n = n*10 + int(c-'0')
		}
		t.Placeholder, t.Num = true, n
		return nil
	case *[]string:
		out, ok := verifParseStrings(data)
		if !ok {
			return errVerifJSON
		}
		*t = out
		return nil
	case *[]any:
		if j.fill != nil {
			j.fill(*t)
		}
		return nil
	}
	return nil
}

type verifWalkEncoder struct{ w io.Writer }

func (e *verifWalkEncoder) Encode(v any) error {
	_, err := e.w.Write(append(verifRender(v, verifModeJSON, nil), '\n'))
	return err
}
func (j *verifWalkJSON) NewEncoder(w io.Writer) serializer.JSONEncoder { return &verifWalkEncoder{w: w} }
func (j *verifWalkJSON) NewDecoder(r io.Reader) serializer.JSONDecoder { return nil }

func verifSymBinary(maxLen int) Binary {
	n := verifChoose(0, maxLen)
	return Binary(verifBytes(n))
}

// verifWalkShape builds the n-th argument tree around the binary leaves b1, b2 and says which leaves it contains in
// walk order. held is the value the caller keeps (what "the values it was given" means).
func verifWalkShape(shape int, b1, b2 Binary) (held any, leaves []Binary, wantErr bool) {
	switch shape {
	case 0: // pointer to a struct with a Binary field (the documented way to send a struct)
		return &verifWS{B: b1, N: 7}, []Binary{b1}, false
	case 1: // struct value
		return verifWS{B: b1, N: 7}, []Binary{b1}, false
	case 2: // map with an interface element type
		return map[string]any{"k": b1}, []Binary{b1}, false
	case 3: // nested slice of interfaces
		return []any{b1, "s"}, []Binary{b1}, false
	case 4: // the Binary itself
		return b1, []Binary{b1}, false
	case 5: // slice of Binary
		return []Binary{b1, b2}, []Binary{b1, b2}, false
	case 6: // two leaves in one struct, a string between them
		return &verifWS2{A: b1, S: "x\"y", B: b2}, []Binary{b1, b2}, false
	case 7: // pointer inside a struct, and a Binary inside an interface field
		return &verifWS3{P: &verifWS{B: b1, N: 1}, I: b2}, []Binary{b1, b2}, false
	case 8: // nested: slice -> map -> struct pointer
		return []any{map[string]any{"m": &verifWS{B: b1, N: 2}}, b2}, []Binary{b1, b2}, false
	case 9: // *Binary is documented as unsupported: Encode reports an error
		bb := b1
		return &bb, nil, true
	case 10: // map with Binary as its element type
		return map[string]Binary{"k": b1}, []Binary{b1}, false
	case 11: // slice of struct pointers
		return []*verifWS{{B: b1, N: 1}, {B: b2, N: 2}}, []Binary{b1, b2}, false
	case 12: // slice of slices
		return [][]any{{b1}, {"t", b2}}, []Binary{b1, b2}, false
	case 13: // map inside a map
		return map[string]any{"k": map[string]any{"j": b1}}, []Binary{b1}, false
	case 14: // struct value (not a pointer) with a Binary inside an interface field and behind a pointer
		return verifWS3{P: &verifWS{B: b1, N: 3}, I: b2}, []Binary{b1, b2}, false
	case 15: // map with TWO binary entries (the walk visits them in Go's map order: see verifWalkUnordered)
		return map[string]any{"a": b1, "b": b2}, []Binary{b1, b2}, false
	case 16:
		return map[string]Binary{"a": b1, "b": b2}, []Binary{b1, b2}, false
	}
	return nil, nil, false
}

const verifWalkShapes = 17

// verifWalkUnordered: shapes whose leaves are visited in an order Go leaves unspecified (maps with several entries): the
// placeholder numbers then depend on that order, so the oracle compares attachments as a multiset and checks that
// placeholder n designates attachment n through the decoder (C09_walk_rt) rather than comparing the first frame literally.
func verifWalkUnordered(shape int) bool { return shape == 15 || shape == 16 }

// verifSameFrames: frame-by-frame equality; for shapes with an unspecified walk order the same number of frames, a first
// frame of the same length and the same attachments as a multiset.
func verifSameFrames(shape int, a, b [][]byte) bool {
	if len(a) != len(b) {
		return false
	}
	if !verifWalkUnordered(shape) {
		for i := range a {
			if !verifEqBytes(a[i], b[i]) {
				return false
			}
		}
		return true
	}
	if len(a) != 3 || len(a[0]) != len(b[0]) {
		return false
	}
	return (verifEqBytes(a[1], b[1]) && verifEqBytes(a[2], b[2])) || (verifEqBytes(a[1], b[2]) && verifEqBytes(a[2], b[1]))
}

// C09_walk: for each argument tree of the menu, with ANY bytes in its Binary leaves (each 0..2 bytes, 0..3 thorough):
// Encode produces exactly the Socket.IO v5 frames (header "5<n>-", the JSON text with the n-th leaf replaced by
// {"_placeholder":true,"num":n} in walk order, then the n attachments byte-identical and in order); the values the
// caller handed in are unchanged afterwards; and encoding the same values again yields the same frames.
//
//verif:unwind 40
func verifH_C09_walk() {
	maxLen := 2
	if verifThorough() {
		maxLen = 3
	}
	shape := verifChoose(0, verifWalkShapes-1)
	b1, b2 := verifSymBinary(maxLen), verifSymBinary(maxLen)
	// the caller's own copies of the bytes, to compare the attachments with
	o1, o2 := append([]byte(nil), b1...), append([]byte(nil), b2...)
	held, leaves, wantErr := verifWalkShape(shape, b1, b2)
	orig := [][]byte{o1, o2}

	p := &Parser{json: &verifWalkJSON{}}
	before := verifRender(held, verifModeSnap, nil)
	n := 0
	ref := verifRender([]any{"ev", held}, verifModeRef, &n)

	args := []any{"ev", held}
	h := &parser.PacketHeader{Type: parser.PacketTypeEvent, Namespace: "/"}
	bufs, err := p.Encode(h, &args)
	if wantErr {
		verifAssert(err != nil, "a *Binary argument is refused with an error")
		verifReach("refused")
		return
	}
	verifAssert(err == nil, "Encode accepts an argument tree with Binary leaves")
	if err != nil {
		return
	}
	verifAssert(len(bufs) == 1+len(leaves), "one frame for the JSON part plus one per Binary leaf")
	if len(bufs) != 1+len(leaves) {
		return
	}
	want := append(verifRefHeader(parser.PacketTypeBinaryEvent, len(leaves), "/", nil), ref...)
	if !verifWalkUnordered(shape) {
		verifAssert(verifEqBytes(bufs[0], want), "the first frame is 5<n>-<json> with the n-th Binary leaf replaced by its placeholder")
		for i := range leaves {
			verifAssert(verifEqBytes(bufs[1+i], orig[i]), "attachment i is byte-identical to the i-th Binary leaf")
		}
	} else {
		verifAssert(len(bufs[0]) == len(want), "the first frame has the length of 5<n>-<json> with every Binary leaf replaced by a placeholder")
		fwd := verifEqBytes(bufs[1], orig[0]) && verifEqBytes(bufs[2], orig[1])
		rev := verifEqBytes(bufs[1], orig[1]) && verifEqBytes(bufs[2], orig[0])
		verifAssert(fwd || rev, "the attachments are the Binary leaves, each once, byte-identical")
	}

	after := verifRender(held, verifModeSnap, nil)
	verifAssert(verifEqBytes(before, after), "encoding does not change the values it was given")

	args2 := []any{"ev", held}
	h2 := &parser.PacketHeader{Type: parser.PacketTypeEvent, Namespace: "/"}
	bufs2, err2 := p.Encode(h2, &args2)
	verifAssert(err2 == nil, "emitting the same value again is accepted")
	if err2 != nil {
		return
	}
	same := verifSameFrames(shape, bufs, bufs2)
	verifAssert(same, "emitting the same value again yields the same frames")
	// the header is a value given to Encode too: a packet kept for later (connection state recovery keeps header and
	// values of every broadcast) is encoded again with the SAME header object
	// (Encode marks the header it was given as binary and records the attachment count in it - the repository's
	// own TestEncode expects that - so the second time round the header already says BINARY_EVENT)
	bufs3, err3 := p.Encode(h, &args)
	verifAssert(err3 == nil, "encoding a kept packet again, header and all, is accepted")
	if err3 != nil {
		return
	}
	same = verifSameFrames(shape, bufs, bufs3)
	verifAssert(same, "and yields the same frames")
	verifReach("end")
}

// C09_walk_rt: the frames of an encoded tree fed to a second parser's Add reproduce the packet: type, namespace, ack id,
// event name, attachment count, and after decode every Binary leaf holds its own bytes again (typed struct target and
// untyped map target).
//
//verif:unwind 40
func verifH_C09_walk_rt() { verifWalkRTBody() }

// verifWalkRTBody is the body shared by C09_walk_rt and C01_decode_args (see there).
func verifWalkRTBody() {
	b1, b2 := verifSymBinary(2), verifSymBinary(2)
	o1, o2 := append([]byte(nil), b1...), append([]byte(nil), b2...)
	variant := verifChoose(0, 3)
	typed := variant == 0
	var held any
	switch variant {
	case 0:
		held = &verifWS2{A: b1, S: "s", B: b2}
	case 1:
		held = map[string]any{"k": b1}
	case 2:
		held = map[string]Binary{"k": b1}
	case 3:
		held = []Binary{b1, b2}
	}
	id := verifAnyUint64()
	verifAssume(id < 100)
	enc := &Parser{json: &verifWalkJSON{}}
	args := []any{"ev", held}
	h := &parser.PacketHeader{Type: parser.PacketTypeEvent, Namespace: "/n", ID: &id}
	bufs, err := enc.Encode(h, &args)
	verifAssert(err == nil, "Encode accepts the tree")
	if err != nil {
		return
	}

	// the JSON library of the receiving side: what encoding/json would build from the JSON text of the first frame
	dj := &verifWalkJSON{fill: func(targets []any) {
		if len(targets) != 2 {
			return
		}
		if name, ok := targets[0].(*string); ok {
			*name = "ev"
		}
		switch t := targets[1].(type) {
		case *verifWS2:
			*t = verifWS2{A: Binary(verifPlaceholderText(0)), S: "s", B: Binary(verifPlaceholderText(1))}
		case *map[string]any:
			*t = map[string]any{"k": map[string]any{"_placeholder": true, "num": float64(0)}}
		case *map[string]Binary:
			*t = map[string]Binary{"k": Binary(verifPlaceholderText(0))}
		case *[]Binary:
			*t = []Binary{Binary(verifPlaceholderText(0)), Binary(verifPlaceholderText(1))}
		}
	}}
	dec := &Parser{json: dj}
	finished := 0
	var gh *parser.PacketHeader
	var gname string
	var gdecode parser.Decode
	for _, f := range bufs {
		verifAssert(finished == 0, "the packet is not complete before its last frame")
		err := dec.Add(f, func(header *parser.PacketHeader, eventName string, decode parser.Decode) {
			finished++
			gh, gname, gdecode = header, eventName, decode
		})
		verifAssert(err == nil, "every frame produced by the encoder is accepted")
	}
	verifAssert(finished == 1, "the packet completes exactly once, with its last frame")
	if finished != 1 {
		return
	}
	verifAssert(gh.Type == parser.PacketTypeBinaryEvent && gh.Namespace == "/n" && gh.ID != nil && *gh.ID == id, "type, namespace and ack id round-trip")
	verifAssert(gname == "ev", "event name round-trips")
	if typed {
		verifAssert(gh.Attachments == 2, "attachment count round-trips")
		vals, err := gdecode(reflect.TypeOf(&verifWS2{}))
		verifAssert(err == nil && len(vals) == 1, "decode into the typed target succeeds")
		if err != nil || len(vals) != 1 {
			return
		}
		got, ok := vals[0].Interface().(*verifWS2)
		verifAssert(ok && got != nil, "the decoded value has the requested type")
		if !ok || got == nil {
			return
		}
		verifAssert(verifEqBytes(got.A, o1) && verifEqBytes(got.B, o2) && got.S == "s", "every binary attachment byte-identical and in its place")
	} else if variant == 3 {
		verifAssert(gh.Attachments == 2, "attachment count round-trips")
		var sl []Binary
		vals, err := gdecode(reflect.TypeOf(&sl))
		verifAssert(err == nil && len(vals) == 1, "decode into the []Binary target succeeds")
		if err != nil || len(vals) != 1 {
			return
		}
		got, ok := vals[0].Interface().(*[]Binary)
		verifAssert(ok && got != nil && len(*got) == 2, "the decoded value has the requested type and length")
		if !ok || got == nil || len(*got) != 2 {
			return
		}
		verifAssert(verifEqBytes((*got)[0], o1) && verifEqBytes((*got)[1], o2), "every element of a slice of Binary gets its own attachment back")
	} else if variant == 2 {
		verifAssert(gh.Attachments == 1, "attachment count round-trips")
		var m map[string]Binary
		vals, err := gdecode(reflect.TypeOf(&m))
		verifAssert(err == nil && len(vals) == 1, "decode into the map[string]Binary target succeeds")
		if err != nil || len(vals) != 1 {
			return
		}
		got, ok := vals[0].Interface().(*map[string]Binary)
		verifAssert(ok && got != nil, "the decoded value has the requested type")
		if !ok || got == nil {
			return
		}
		verifAssert(verifEqBytes((*got)["k"], o1), "the placeholder is replaced by its attachment, byte-identical")
	} else {
		verifAssert(gh.Attachments == 1, "attachment count round-trips")
		var m map[string]any
		vals, err := gdecode(reflect.TypeOf(&m))
		verifAssert(err == nil && len(vals) == 1, "decode into the untyped target succeeds")
		if err != nil || len(vals) != 1 {
			return
		}
		got, ok := vals[0].Interface().(*map[string]any)
		verifAssert(ok && got != nil, "the decoded value has the requested type")
		if !ok || got == nil {
			return
		}
		b, isBytes := (*got)["k"].([]byte)
		verifAssert(isBytes && verifEqBytes(b, o1), "the placeholder is replaced by its attachment, byte-identical")
	}
	verifReach("end")
}

// verifST_walkrender validates verifRender's JSON mode against the real encoding/json for every shape of the menu
// (native only).
func verifST_walkrender() {
	bins := []Binary{Binary(`"a"`), Binary(`{"x":1}`), Binary(`12`), nil}
	for shape := 0; shape < verifWalkShapes; shape++ {
		for _, b1 := range bins {
			for _, b2 := range bins {
				held, _, _ := verifWalkShape(shape, b1, b2)
				args := []any{"ev", held}
				real, err := stdjson.Marshal(&args)
				mine := verifRender(&args, verifModeJSON, nil)
				if err != nil || string(real) != string(mine) {
					println("VERIF-SELFTEST-INPUT: shape", shape, string(real), string(mine))
				}
				verifAssert(err == nil && string(real) == string(mine), "structural renderer equals json.Marshal on the shape menu")
			}
		}
	}
	ph := &placeholder{Placeholder: true, Num: 12}
	real, _ := stdjson.Marshal(ph)
	verifAssert(string(real) == string(verifRender(ph, verifModeJSON, nil)), "placeholder text equals json.Marshal")
}

// C09_walk_refused: an Encode that FAILS after the binary walk has started - more Binary leaves than maxAttachments allows,
// or a *Binary met after an earlier leaf was already replaced - also leaves the values it was given as they were: the
// same values can then be encoded by a parser without the limit and yield the reference frames.
//
//verif:unwind 40
func verifH_C09_walk_refused() {
	twoLeaves := []int{5, 6, 7, 8, 11, 12, 14}
	shape := twoLeaves[verifChoose(0, len(twoLeaves)-1)]
	b1, b2 := verifSymBinary(2), verifSymBinary(2)
	o1, o2 := append([]byte(nil), b1...), append([]byte(nil), b2...)
	held, leaves, _ := verifWalkShape(shape, b1, b2)
	var args []any
	if verifAnyBool() {
		args = []any{"ev", held} // refused for its attachment count (limit 1, two leaves)
	} else {
		bb := Binary("x")
		args = []any{"ev", held, &bb} // refused for the *Binary that follows
	}
	before := verifRender(held, verifModeSnap, nil)
	limited := &Parser{json: &verifWalkJSON{}, maxAttachments: 1}
	_, err := limited.Encode(&parser.PacketHeader{Type: parser.PacketTypeEvent, Namespace: "/"}, &args)
	verifAssert(err != nil, "the packet is refused")
	after := verifRender(held, verifModeSnap, nil)
	verifAssert(verifEqBytes(before, after), "a refused Encode does not change the values it was given either")
	// and they still encode
	free := &Parser{json: &verifWalkJSON{}}
	args2 := []any{"ev", held}
	bufs, err2 := free.Encode(&parser.PacketHeader{Type: parser.PacketTypeEvent, Namespace: "/"}, &args2)
	verifAssert(err2 == nil && len(bufs) == 1+len(leaves), "the same values are accepted by a parser without the limit")
	if err2 == nil && len(bufs) == 3 {
		verifAssert(verifEqBytes(bufs[1], o1) && verifEqBytes(bufs[2], o2), "with their own bytes as attachments")
	}
	verifReach("end")
}
