package jsonparser

import (
	"errors"
	"io"

	"github.com/karagenc/socket.io-go/parser"

	"github.com/karagenc/socket.io-go/parser/json/serializer"
)

var errVerifJSON = errors.New("verif: json error")

// verifOpaqueJSON models a JSON library whose input is controlled by the peer: Unmarshal may fail, and for the
// event-name probe (*[]string) it may return 0..2 arbitrary short strings. Other targets are left untouched.
type verifOpaqueJSON struct{}

func (verifOpaqueJSON) Marshal(v any) ([]byte, error) { return []byte("null"), nil }

func (verifOpaqueJSON) Unmarshal(data []byte, v any) error {
	if verifAnyBool() {
		return errVerifJSON
	}
	if p, ok := v.(*[]string); ok {
		n := verifChoose(0, 2)
		s := make([]string, n)
		for i := range s {
			s[i] = verifString(1)
		}
		*p = s
	}
	return nil
}

func (verifOpaqueJSON) NewEncoder(w io.Writer) serializer.JSONEncoder { return nil }
func (verifOpaqueJSON) NewDecoder(r io.Reader) serializer.JSONDecoder { return nil }

// ---- JSON string-literal model (validated natively against encoding/json by verifST_jsonmodel) ----

// verifAlpha is the alphabet of the model: printable ASCII except the three characters Go's encoder HTML-escapes.
func verifAlpha(c byte) bool {
	return c >= 0x20 && c < 0x7f && c != '<' && c != '>' && c != '&'
}

// verifEscape renders s as a JSON string literal the way encoding/json does on the alphabet.
func verifEscape(s string) []byte {
	out := []byte{'"'}
	for i := 0; i < len(s); i++ {
		c := s[i]
		if c == '"' || c == '\\' {
			out = append(out, '\\')
		}
		out = append(out, c)
	}
	return append(out, '"')
}

// verifParseStrings parses a JSON array of string literals (`["a","b"]`) over the alphabet; ok=false where
// encoding/json would fail.
func verifParseStrings(data []byte) (out []string, ok bool) {
	n := len(data)
	if n < 2 || data[0] != '[' || data[n-1] != ']' {
		return nil, false
	}
	i := 1
	if i == n-1 {
		return []string{}, true
	}
	for {
		if i >= n-1 || data[i] != '"' {
			return nil, false
		}
		i++
		var cur []byte
		closed := false
		for i < n-1 {
			c := data[i]
			if c == '\\' {
				if i+1 >= n-1 {
					return nil, false
				}
				e := data[i+1]
				if e != '"' && e != '\\' && e != '/' {
					return nil, false // other escapes (\n, \u....) are outside the model's alphabet
				}
				cur = append(cur, e)
				i += 2
				continue
			}
			if c == '"' {
				closed = true
				i++
				break
			}
			cur = append(cur, c)
			i++
		}
		if !closed {
			return nil, false
		}
		out = append(out, string(cur))
		if i == n-1 {
			return out, true
		}
		if data[i] != ',' {
			return nil, false
		}
		i++
	}
}

// verifModelJSON is a serializer whose encoder writes a prepared JSON text (plus the newline json.Encoder adds) and
// whose Unmarshal understands arrays of string literals (what parseHeader asks for).
type verifModelJSON struct{ text []byte }

func (j *verifModelJSON) Marshal(v any) ([]byte, error) { return j.text, nil }
func (j *verifModelJSON) Unmarshal(data []byte, v any) error {
	p, isStrings := v.(*[]string)
	if !isStrings {
		return nil
	}
	out, ok := verifParseStrings(data)
	if !ok {
		return errVerifJSON
	}
	*p = out
	return nil
}

type verifModelEncoder struct {
	w    io.Writer
	text []byte
}

func (e *verifModelEncoder) Encode(v any) error {
	_, err := e.w.Write(append(append([]byte(nil), e.text...), '\n'))
	return err
}
func (j *verifModelJSON) NewEncoder(w io.Writer) serializer.JSONEncoder {
	return &verifModelEncoder{w: w, text: j.text}
}
func (j *verifModelJSON) NewDecoder(r io.Reader) serializer.JSONDecoder { return nil }

func verifSymName(maxLen int) string {
	n := verifChoose(0, maxLen)
	s := verifString(n)
	for i := 0; i < n; i++ {
		verifAssume(verifAlpha(s[i]))
	}
	return s
}

// verifRefHeader renders the Socket.IO v5 header <type>[<n>-][<nsp>,][<id>] independently of the implementation.
func verifRefHeader(typ parser.PacketType, attachments int, nsp string, id *uint64) []byte {
	out := []byte{'0' + byte(typ)}
	if typ == parser.PacketTypeBinaryEvent || typ == parser.PacketTypeBinaryAck {
		out = append(out, verifDec(uint64(attachments))...)
		out = append(out, '-')
	}
	if nsp != "" && nsp != "/" {
		out = append(out, nsp...)
		out = append(out, ',')
	}
	if id != nil {
		out = append(out, verifDec(*id)...)
	}
	return out
}

// verifDec is a reference decimal printer (concrete digit count per path).
func verifDec(v uint64) []byte {
	if v == 0 {
		return []byte{'0'}
	}
	var rev []byte
	for v > 0 {
		rev = append(rev, '0'+byte(v%10))
		v /= 10
	}
	out := make([]byte, len(rev))
	for i := range rev {
		out[i] = rev[len(rev)-1-i]
	}
	return out
}

// verifHeaderRT encodes one header + JSON text with the real encodeString, checks the v5 layout against the reference
// and parses it back with the real parseHeader.
func verifHeaderRT(typ parser.PacketType, nsp string, id *uint64, att int, name string, text []byte) {
	js := &verifModelJSON{text: text}
	p := &Parser{json: js}
	h := &parser.PacketHeader{Type: typ, Namespace: nsp, ID: id, Attachments: att}
	var payload any = &[]any{"x"} // any non-empty value: the encoder stub writes `text`
	enc, err := p.encodeString(h, payload)
	verifAssert(err == nil, "encodeString does not fail")
	ref := append(verifRefHeader(typ, att, nsp, id), text...)
	verifAssert(verifEqBytes(enc, ref), "encoded header is <type>[<n>-][<nsp>,][<id>]<json> as Socket.IO v5 prescribes")

	q := &Parser{json: js}
	gh, buf, gname, err := q.parseHeader(enc)
	verifAssert(err == nil, "a header produced by the encoder is accepted by the decoder")
	if err != nil {
		return
	}
	verifAssert(gh.Type == typ, "packet type round-trips")
	wantNsp := nsp
	if wantNsp == "" {
		wantNsp = "/"
	}
	verifAssert(gh.Namespace == wantNsp, "namespace round-trips ('' and '/' both mean '/')")
	if id == nil {
		verifAssert(gh.ID == nil, "absent ack id stays absent")
	} else {
		verifAssert(gh.ID != nil && *gh.ID == *id, "ack id round-trips")
	}
	verifAssert(gh.Attachments == att, "attachment count round-trips")
	verifAssert(gname == name, "event name round-trips")
	verifAssert(verifEqBytes(buf, text), "the JSON payload handed on is exactly the encoded JSON part")
	verifReach("end")
}

