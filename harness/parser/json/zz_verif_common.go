package jsonparser

import (
	"errors"
	"io"

	"github.com/karagenc/socket.io-go/parser/json/serializer"
)

var errVerifJSON = errors.New("verif: json error")

// verifOpaqueJSON models a JSON library whose input is controlled by the peer: Unmarshal may fail, and for the
// event-name probe (*[]string) it may return 0..2 arbitrary short strings. Other targets are left untouched.
type verifOpaqueJSON struct{}

func (verifOpaqueJSON) Marshal(v any) ([]byte, error) { return []byte("null"), nil }

func (verifOpaqueJSON) Unmarshal(data []byte, v any) error {
	if verifAnyBool() {
		return errVerifJSON
	}
	if p, ok := v.(*[]string); ok {
		n := verifChoose(0, 2)
		s := make([]string, n)
		for i := range s {
			s[i] = verifString(1)
		}
		*p = s
	}
	return nil
}

func (verifOpaqueJSON) NewEncoder(w io.Writer) serializer.JSONEncoder { return nil }
func (verifOpaqueJSON) NewDecoder(r io.Reader) serializer.JSONDecoder { return nil }
