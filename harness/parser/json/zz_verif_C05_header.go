package jsonparser

import (
	"github.com/karagenc/socket.io-go/parser"
)

// C05_header: the namespace written into a packet header is the namespace read back, for namespaces "/"+x with x any
// 0..N comma-free bytes (so names that are prefixes of one another, and "" vs "/", are cases of one symbolic name), on
// every packet type: a packet for one namespace is never attributed to a look-alike.
//
//verif:unwind 24
func verifH_C05_header() {
	N := 3
	if verifThorough() {
		N = 5
	}
	tb := verifAnyByte()
	verifAssume(tb <= 6)
	typ := parser.PacketType(tb)
	nsp := ""
	switch verifChoose(0, 2) {
	case 1:
		nsp = "/"
	case 2:
		x := verifString(verifChoose(0, N))
		for i := 0; i < len(x); i++ {
			verifAssume(x[i] != ',')
		}
		nsp = "/" + x
	}
	att := 0
	if typ == parser.PacketTypeBinaryEvent || typ == parser.PacketTypeBinaryAck {
		att = 1
	}
	name := ""
	text := []byte(`["x"]`)
	if typ == parser.PacketTypeEvent || typ == parser.PacketTypeBinaryEvent {
		name = "ev"
		text = []byte(`["ev",1]`)
	}
	verifHeaderRT(typ, nsp, nil, att, name, text)
}
