package jsonparser

// C01_decode_args: "arguments equal to those emitted", at the codec: an event whose argument tree holds sio.Binary leaves
// (typed struct with two leaves, map[string]any, map[string]Binary, []Binary; leaf bytes symbolic) is encoded by the real
// encoder, its frames are fed to a second parser's Add, and the decode closure hands the handler's argument back: every
// leaf holds its own bytes again, in its place (kernel shared with C09_walk_rt).
//
//verif:unwind 40
func verifH_C01_decode_args() { verifWalkRTBody() }
