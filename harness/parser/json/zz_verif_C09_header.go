package jsonparser

import (
	"github.com/karagenc/socket.io-go/parser"
)

// C09_header_fields: one header field symbolic at a time (their product would only multiply paths):
// mode 0: every packet type x namespace "" / "/" / "/"+x (x: up to NS symbolic comma-free bytes);
// mode 1: ack id symbolic (below 10^4 quick / 10^5 thorough: 1..4/5 digits) on EVENT and ACK, with and without namespace;
// mode 2: attachment count symbolic 0..999 on BINARY_EVENT / BINARY_ACK;
// mode 3: ack id = one of 14 boundary constants up to 2^64-1 (every digit count and both sides of 2^32, 2^53, 2^63, 10^19).
//
//verif:unwind 24
//verif:qtimeout.thorough 150000
func verifH_C09_header_fields() {
	NS := 2
	idMax := uint64(10000)
	if verifThorough() {
		NS = 4
		idMax = 100000
	}
	typ := parser.PacketTypeEvent
	nsp := "/"
	var id *uint64
	att := 0
	switch verifChoose(0, 3) {
	case 3:
		// ack id boundary constants over the full uint64 range (symbolic 64-bit ids exceed the solver budget: div/mod chains)
		if verifAnyBool() {
			typ = parser.PacketTypeAck
		}
		ids := []uint64{0, 9, 10, 99999, 1<<32 - 1, 1 << 32, 1 << 53, 1<<63 - 1, 1 << 63, 1<<63 + 1, 12345678912345678912, 1<<64 - 1, 10000000000000000000, 9999999999999999999}
		v := ids[verifChoose(0, len(ids)-1)]
		id = &v
	case 0:
		tb := verifAnyByte()
		verifAssume(tb <= 6)
		typ = parser.PacketType(tb)
		switch verifChoose(0, 2) {
		case 0:
			nsp = ""
		case 2:
			x := verifString(verifChoose(0, NS))
			for i := 0; i < len(x); i++ {
				verifAssume(x[i] != ',')
			}
			nsp = "/" + x
		}
		if typ == parser.PacketTypeBinaryEvent || typ == parser.PacketTypeBinaryAck {
			att = 2
		}
	case 1:
		if verifAnyBool() {
			typ = parser.PacketTypeAck
		}
		if verifAnyBool() {
			nsp = "/adm"
		}
		v := verifAnyUint64()
		verifAssume(v < idMax)
		id = &v
	case 2:
		typ = parser.PacketTypeBinaryEvent
		if verifAnyBool() {
			typ = parser.PacketTypeBinaryAck
		}
		if verifAnyBool() {
			nsp = "/adm"
		}
		att = verifAnyInt()
		verifAssume(att >= 0 && att <= 999)
	}
	name := ""
	text := []byte(`["x"]`)
	if typ == parser.PacketTypeEvent || typ == parser.PacketTypeBinaryEvent {
		name = "ev"
		text = []byte(`["ev",1]`)
	}
	verifHeaderRT(typ, nsp, id, att, name, text)
}

// C09_event_name: event names of up to NN symbolic bytes over the alphabet (quotes and backslashes included), followed
// or not by a further string argument; EVENT and BINARY_EVENT, with and without namespace / ack id.
//
//verif:unwind 24
func verifH_C09_event_name() {
	NN := 2
	if verifThorough() {
		NN = 4
	}
	typ := parser.PacketTypeEvent
	att := 0
	if verifAnyBool() {
		typ = parser.PacketTypeBinaryEvent
		att = 1
	}
	nsp := "/"
	var id *uint64
	if verifAnyBool() {
		nsp = "/n"
		v := uint64(12)
		id = &v
	}
	name := verifSymName(NN)
	text := append([]byte{'['}, verifEscape(name)...)
	if verifAnyBool() {
		text = append(text, ',')
		text = append(text, verifEscape(verifSymName(1))...)
	}
	text = append(text, ']')
	verifHeaderRT(typ, nsp, id, att, name, text)
}
