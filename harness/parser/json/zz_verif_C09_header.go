package jsonparser

import (
	"github.com/karagenc/socket.io-go/parser"
)

func verifSymName(maxLen int) string {
	n := verifChoose(0, maxLen)
	s := verifString(n)
	for i := 0; i < n; i++ {
		verifAssume(verifAlpha(s[i]))
	}
	return s
}

// verifRefHeader renders the Socket.IO v5 header <type>[<n>-][<nsp>,][<id>] independently of the implementation.
func verifRefHeader(typ parser.PacketType, attachments int, nsp string, id *uint64) []byte {
	out := []byte{'0' + byte(typ)}
	if typ == parser.PacketTypeBinaryEvent || typ == parser.PacketTypeBinaryAck {
		out = append(out, verifDec(uint64(attachments))...)
		out = append(out, '-')
	}
	if nsp != "" && nsp != "/" {
		out = append(out, nsp...)
		out = append(out, ',')
	}
	if id != nil {
		out = append(out, verifDec(*id)...)
	}
	return out
}

// verifDec is a reference decimal printer (concrete digit count per path).
func verifDec(v uint64) []byte {
	if v == 0 {
		return []byte{'0'}
	}
	var rev []byte
	for v > 0 {
		rev = append(rev, '0'+byte(v%10))
		v /= 10
	}
	out := make([]byte, len(rev))
	for i := range rev {
		out[i] = rev[len(rev)-1-i]
	}
	return out
}

// verifHeaderRT encodes one header + JSON text with the real encodeString, checks the v5 layout against the reference
// and parses it back with the real parseHeader.
func verifHeaderRT(typ parser.PacketType, nsp string, id *uint64, att int, name string, text []byte) {
	js := &verifModelJSON{text: text}
	p := &Parser{json: js}
	h := &parser.PacketHeader{Type: typ, Namespace: nsp, ID: id, Attachments: att}
	var payload any = &[]any{"x"} // any non-empty value: the encoder stub writes `text`
	enc, err := p.encodeString(h, payload)
	verifAssert(err == nil, "encodeString does not fail")
	ref := append(verifRefHeader(typ, att, nsp, id), text...)
	verifAssert(verifEqBytes(enc, ref), "encoded header is <type>[<n>-][<nsp>,][<id>]<json> as Socket.IO v5 prescribes")

	q := &Parser{json: js}
	gh, buf, gname, err := q.parseHeader(enc)
	verifAssert(err == nil, "a header produced by the encoder is accepted by the decoder")
	if err != nil {
		return
	}
	verifAssert(gh.Type == typ, "packet type round-trips")
	wantNsp := nsp
	if wantNsp == "" {
		wantNsp = "/"
	}
	verifAssert(gh.Namespace == wantNsp, "namespace round-trips ('' and '/' both mean '/')")
	if id == nil {
		verifAssert(gh.ID == nil, "absent ack id stays absent")
	} else {
		verifAssert(gh.ID != nil && *gh.ID == *id, "ack id round-trips")
	}
	verifAssert(gh.Attachments == att, "attachment count round-trips")
	verifAssert(gname == name, "event name round-trips")
	verifAssert(verifEqBytes(buf, text), "the JSON payload handed on is exactly the encoded JSON part")
	verifReach("end")
}

// C09_header_fields: one header field symbolic at a time (their product would only multiply paths):
// mode 0: every packet type x namespace "" / "/" / "/"+x (x: up to NS symbolic comma-free bytes);
// mode 1: ack id symbolic (below 10^4 quick / 10^6 thorough: 1..4/6 digits) on EVENT and ACK, with and without namespace;
// mode 2: attachment count symbolic 0..999 on BINARY_EVENT / BINARY_ACK.
//
//verif:unwind 24
func verifH_C09_header_fields() {
	NS := 2
	idMax := uint64(10000)
	if verifThorough() {
		NS = 4
		idMax = 1000000
	}
	typ := parser.PacketTypeEvent
	nsp := "/"
	var id *uint64
	att := 0
	switch verifChoose(0, 2) {
	case 0:
		tb := verifAnyByte()
		verifAssume(tb <= 6)
		typ = parser.PacketType(tb)
		switch verifChoose(0, 2) {
		case 0:
			nsp = ""
		case 2:
			x := verifString(verifChoose(0, NS))
			for i := 0; i < len(x); i++ {
				verifAssume(x[i] != ',')
			}
			nsp = "/" + x
		}
		if typ == parser.PacketTypeBinaryEvent || typ == parser.PacketTypeBinaryAck {
			att = 2
		}
	case 1:
		if verifAnyBool() {
			typ = parser.PacketTypeAck
		}
		if verifAnyBool() {
			nsp = "/adm"
		}
		v := verifAnyUint64()
		verifAssume(v < idMax)
		id = &v
	case 2:
		typ = parser.PacketTypeBinaryEvent
		if verifAnyBool() {
			typ = parser.PacketTypeBinaryAck
		}
		if verifAnyBool() {
			nsp = "/adm"
		}
		att = verifAnyInt()
		verifAssume(att >= 0 && att <= 999)
	}
	name := ""
	text := []byte(`["x"]`)
	if typ == parser.PacketTypeEvent || typ == parser.PacketTypeBinaryEvent {
		name = "ev"
		text = []byte(`["ev",1]`)
	}
	verifHeaderRT(typ, nsp, id, att, name, text)
}

// C09_event_name: event names of up to NN symbolic bytes over the alphabet (quotes and backslashes included), followed
// or not by a further string argument; EVENT and BINARY_EVENT, with and without namespace / ack id.
//
//verif:unwind 24
func verifH_C09_event_name() {
	NN := 2
	if verifThorough() {
		NN = 4
	}
	typ := parser.PacketTypeEvent
	att := 0
	if verifAnyBool() {
		typ = parser.PacketTypeBinaryEvent
		att = 1
	}
	nsp := "/"
	var id *uint64
	if verifAnyBool() {
		nsp = "/n"
		v := uint64(12)
		id = &v
	}
	name := verifSymName(NN)
	text := append([]byte{'['}, verifEscape(name)...)
	if verifAnyBool() {
		text = append(text, ',')
		text = append(text, verifEscape(verifSymName(1))...)
	}
	text = append(text, ']')
	verifHeaderRT(typ, nsp, id, att, name, text)
}
