package jsonparser

import (
	"github.com/karagenc/socket.io-go/parser"
)

// C10_attachments: a binary header whose attachment count is any decimal string of 1..3 symbolic digits, or one of the
// boundary counts around every width change (2^31, 2^32, 2^47/24, 2^63, 2^64, 10^19, 10^20: full-width symbolic digit
// strings make ParseUint's 64-bit multiply chain intractable for the solvers - measured: 428 unknowns in 10 minutes):
// Add never panics, and afterwards the parser is not wedged - it either refused the frame or expects a sensible,
// non-negative number of attachment frames (bounded by maxAttachments when that is set).
//
//verif:unwind 30
func verifH_C10_attachments() {
	var digits []byte
	if verifAnyBool() {
		d := verifChoose(1, 3)
		digits = verifBytes(d)
		for i := range digits {
			verifAssume(digits[i] >= '0' && digits[i] <= '9')
		}
	} else {
		menu := []string{"0", "00", "1", "10", "11", "999", "2147483647", "2147483648", "4294967295", "4294967296",
			"5864062014805", "5864062014806", "9223372036854775806", "9223372036854775807", "9223372036854775808",
			"18446744073709551615", "18446744073709551616", "10000000000000000000", "99999999999999999999", "1000000000000000"}
		digits = []byte(menu[verifChoose(0, len(menu)-1)])
	}
	typ := byte('5')
	if verifAnyBool() {
		typ = '6'
	}
	frame := append([]byte{typ}, digits...)
	frame = append(frame, []byte(`-["a"]`)...)
	limit := 0
	if verifAnyBool() {
		limit = 10
	}
	p := &Parser{json: &verifModelJSON{}, maxAttachments: limit}
	finished := 0
	err := p.Add(frame, func(h *parser.PacketHeader, ev string, dec parser.Decode) { finished++ })
	if err == nil && finished == 0 {
		verifAssert(p.r != nil && p.r.remaining > 0, "an accepted binary header leaves the decoder expecting a positive number of attachment frames (never a negative count that no frame sequence can satisfy)")
		if p.r != nil && limit > 0 {
			verifAssert(p.r.remaining <= limit, "the configured attachment limit bounds what the decoder waits for")
		}
	}
	if err != nil && limit > 0 {
		// a refused header must not leave a half-built packet swallowing the next frames
	}
	verifReach("end")
}
