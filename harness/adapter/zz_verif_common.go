package adapter

import (
	"reflect"

	mapset "github.com/deckarep/golang-set/v2"
	"github.com/karagenc/socket.io-go/parser"
)

// verifParser is an encoder stub: one opaque frame per packet (encoding is C09's subject).
type verifParser struct{ encodes int }

func (p *verifParser) Encode(header *parser.PacketHeader, v any) ([][]byte, error) {
	p.encodes++
	return [][]byte{{'x'}}, nil
}
func (p *verifParser) Add(data []byte, finish parser.Finish) error { return nil }
func (p *verifParser) Reset()                                      {}

var _ = reflect.TypeOf

// verifSock is a socket that calls back into the adapter the way serverSocket does.
type verifSock struct {
	id    SocketID
	a     Adapter
	store *verifStore
	gone  bool
}

func (s *verifSock) ID() SocketID                           { return s.id }
func (s *verifSock) Join(room ...Room)                      { s.a.AddAll(s.id, room) }
func (s *verifSock) Leave(room Room)                        { s.a.Delete(s.id, room) }
func (s *verifSock) Emit(eventName string, v ...any)        {}
func (s *verifSock) To(room ...Room) *BroadcastOperator     { return nil }
func (s *verifSock) In(room ...Room) *BroadcastOperator     { return nil }
func (s *verifSock) Except(room ...Room) *BroadcastOperator { return nil }
func (s *verifSock) Broadcast() *BroadcastOperator          { return nil }
func (s *verifSock) Disconnect(close bool) {
	s.gone = true
	s.a.DeleteAll(s.id)
	s.store.Remove(s.id)
}

// verifStore records deliveries.
type verifStore struct {
	socks map[SocketID]Socket
	sent  []SocketID
}

func (s *verifStore) SendBuffers(sid SocketID, buffers [][]byte) bool {
	s.sent = append(s.sent, sid)
	return true
}
func (s *verifStore) Get(sid SocketID) (Socket, bool) { so, ok := s.socks[sid]; return so, ok }
func (s *verifStore) GetAll() []Socket {
	var out []Socket
	for _, so := range s.socks {
		out = append(out, so)
	}
	return out
}
func (s *verifStore) Remove(sid SocketID) { delete(s.socks, sid) }

var verifSIDs = []SocketID{"s0", "s1", "s2"}
var verifRooms = []Room{"r0", "r1", "r2"}

// verifWorld builds an adapter whose membership is the symbolic matrix m (S sockets x R rooms) by calling the real
// AddAll; every socket is also in its own-id room, as on a real server.
func verifWorld(S, R int) (*inMemoryAdapter, *verifStore, [][]bool) {
	st := &verifStore{socks: map[SocketID]Socket{}}
	a := NewInMemoryAdapterCreator()(st, func() parser.Parser { return &verifParser{} }).(*inMemoryAdapter)
	m := make([][]bool, S)
	for i := 0; i < S; i++ {
		st.socks[verifSIDs[i]] = &verifSock{id: verifSIDs[i], a: a, store: st}
		a.AddAll(verifSIDs[i], []Room{Room(verifSIDs[i])})
		m[i] = make([]bool, R)
		for j := 0; j < R; j++ {
			m[i][j] = verifAnyBool()
			if m[i][j] {
				a.AddAll(verifSIDs[i], []Room{verifRooms[j]})
			}
		}
	}
	return a, st, m
}

// verifInvariant: rooms and sids are mutually inverse and no empty room set is kept.
func verifInvariant(a *inMemoryAdapter) bool {
	ok := true
	for room, set := range a.rooms {
		if set.Cardinality() == 0 {
			ok = false
		}
		set.Each(func(sid SocketID) bool {
			rs, have := a.sids[sid]
			if !have || !rs.Contains(room) {
				ok = false
			}
			return false
		})
	}
	for sid, rs := range a.sids {
		rs.Each(func(room Room) bool {
			set, have := a.rooms[room]
			if !have || !set.Contains(sid) {
				ok = false
			}
			return false
		})
	}
	return ok
}

func verifIn(a *inMemoryAdapter, sid SocketID, room Room) bool {
	set, ok := a.rooms[room]
	return ok && set.Contains(sid)
}

func verifSubset(R int) (mapset.Set[Room], []bool) {
	set := mapset.NewSet[Room]()
	bits := make([]bool, R)
	for j := 0; j < R; j++ {
		bits[j] = verifAnyBool()
		if bits[j] {
			set.Add(verifRooms[j])
		}
	}
	return set, bits
}

func verifCountSID(xs []SocketID, v SocketID) int {
	n := 0
	for _, x := range xs {
		if x == v {
			n++
		}
	}
	return n
}

// verifSelected is the reference: (T empty or in some room of T) and in no room of E.
func verifSelected(m [][]bool, i int, t, e []bool) bool {
	anyT, inT, inE := false, false, false
	for j := range t {
		if t[j] {
			anyT = true
			if m[i][j] {
				inT = true
			}
		}
		if e[j] && m[i][j] {
			inE = true
		}
	}
	return (!anyT || inT) && !inE
}
