package adapter

import (
	"time"

	"github.com/karagenc/socket.io-go/parser"
)

// C16_session_adapter: the session-aware adapter (connection state recovery) used concurrently, as a server does when
// clients reconnect while others emit and disconnect: a RestoreSession whose outcome is symbolic (unknown session id,
// known session with an offset that is not in the log, known session with a good offset) runs against a Broadcast and a
// PersistSession under all interleavings at synchronisation points. No data race, no deadlock; afterwards no mutex is
// held and the adapter still works (a further Broadcast is logged, a further RestoreSession answers).
//
//verif:unwind 30
//verif:preempt 2
//verif:sleep gate
func verifH_C16_session_adapter() {
	st := &verifStore{socks: map[SocketID]Socket{}}
	inMem := NewInMemoryAdapterCreator()(st, func() parser.Parser { return &verifParser{} }).(*inMemoryAdapter)
	a := newSessionAwareAdapter(inMem, time.Hour, time.Hour)
	hdr := &parser.PacketHeader{Type: parser.PacketTypeEvent, Namespace: "/"}
	a.Broadcast(hdr, []any{"ev"}, NewBroadcastOptions())
	good := a.packets[0].ID
	a.PersistSession(&SessionToPersist{SID: "sid1", PID: "pid1", Rooms: []Room{"sid1"}})
	pid, offset := "pid1", good
	switch verifChoose(0, 2) {
	case 1:
		pid = "nobody"
	case 2:
		offset = good + "x"
	}
	verifThreads(true)
	verifSettle()
	parked := verifBlocked() // the adapter's own clean-up goroutine sleeps between its passes
	verifGo(func() { a.RestoreSession(PrivateSessionID(pid), offset) })
	verifGo(func() { a.Broadcast(hdr, []any{"ev2"}, NewBroadcastOptions()) })
	verifGo(func() { a.PersistSession(&SessionToPersist{SID: "sid2", PID: "pid2", Rooms: []Room{"sid2"}}) })
	verifWaitQuiescent()
	verifAssert(verifBlocked() == parked, "no goroutine is left blocked")
	verifAssert(verifHeldLocks() == 0, "no mutex is left held")
	n := len(a.packets)
	a.Broadcast(hdr, []any{"ev3"}, NewBroadcastOptions())
	verifAssert(len(a.packets) == n+1, "the adapter keeps working")
	_, ok := a.RestoreSession("pid2", good)
	verifAssert(ok, "a session persisted concurrently can be restored")
	verifReach("end")
}
