package adapter

import (
	"time"

	mapset "github.com/deckarep/golang-set/v2"
	"github.com/karagenc/socket.io-go/parser"
)

const (
	verifUnit   = 100 * time.Millisecond
	verifWindow = 250 * time.Millisecond // never a multiple of the unit: no instant falls exactly on the boundary
	verifMargin = 30 * time.Millisecond  // native scheduling jitter allowance (irrelevant in virtual time)
)

type verifGhost struct {
	id        string
	addressed bool
	at        time.Time
}

func verifOpts(kind int) *BroadcastOptions {
	o := NewBroadcastOptions()
	switch kind {
	case 1:
		o.Rooms = mapset.NewSet[Room]("r0")
	case 2:
		o.Rooms = mapset.NewSet[Room]("r1")
	case 3:
		o.Except = mapset.NewSet[Room]("r0")
	case 4:
		o.Rooms = mapset.NewSet[Room]("r0")
		o.Except = mapset.NewSet[Room]("r1")
	case 5:
		o.Rooms = mapset.NewSet[Room]("r1")
		o.Except = mapset.NewSet[Room]("r0")
	}
	return o
}

// verifAddressed is the reference: is a broadcast of the given kind addressed to a session in rooms {sid1, r0} plus r1
// iff inR1? (T empty or session in some room of T) and session in no room of E.
func verifAddressed(kind int, inR1 bool) bool {
	switch kind {
	case 0, 1:
		return true
	case 2:
		return inR1
	case 3:
		return false
	case 4:
		return !inR1
	}
	return false // kind 5: except r0
}

// verifSteps is a symbolic number of clock units in [0,4] (NOT forked: the solver ranges over it).
func verifSteps() time.Duration {
	k := verifAnyInt()
	verifAssume(k >= 0 && k <= 4)
	return time.Duration(k) * verifUnit
}

// C08_log: the packet log / cleaner / restore kernel against a ghost log. A session in rooms {sid, r0} disconnects
// after d of h broadcasts (each: to all / to r0 / to r1 / to all except r0); symbolic amounts of time pass between the
// steps; the cleaner runs a few passes; then the session is restored with the offset of the last packet it received.
//
//verif:unwind 30
//verif:sleep gate
//verif:replay anyassert
func verifH_C08_log() {
	H := 2
	if verifThorough() {
		H = 3
	}
	st := &verifStore{socks: map[SocketID]Socket{}}
	inMem := NewInMemoryAdapterCreator()(st, func() parser.Parser { return &verifParser{} }).(*inMemoryAdapter)
	period := time.Hour
	if verifIsNative() {
		period = 2 * time.Millisecond
	}
	a := newSessionAwareAdapter(inMem, verifWindow, period)
	// the session's rooms: {sid1, r0}, optionally r1 as well, persisted in either order
	sessRooms := []Room{"sid1", "r0"}
	inR1 := false
	switch verifChoose(0, 2) {
	case 1:
		sessRooms, inR1 = []Room{"sid1", "r0", "r1"}, true
	case 2:
		sessRooms, inR1 = []Room{"sid1", "r1", "r0"}, true
	}
	h := verifChoose(1, H)
	d := verifChoose(1, h)
	var ghost []verifGhost
	offset := ""
	offsetIdx := -1
	var disconnectedAt time.Time
	hdr := &parser.PacketHeader{Type: parser.PacketTypeEvent, Namespace: "/"}
	for i := 0; i < h; i++ {
		verifAdvance(verifSteps())
		kinds := 5
		if h == 3 && i == 0 {
			kinds = 1 // thorough, three broadcasts: the first one is "to all" or "to r0", the second one of four kinds (the full product exceeds the time budget)
		}
		if h == 3 && i == 1 {
			kinds = 3
		}
		kind := verifChoose(0, kinds)
		before := len(a.packets)
		a.Broadcast(hdr, []any{"ev"}, verifOpts(kind))
		verifAssert(len(a.packets) == before+1, "an event broadcast without ack is logged")
		g := verifGhost{id: a.packets[len(a.packets)-1].ID, addressed: verifAddressed(kind, inR1), at: time.Now()}
		ghost = append(ghost, g)
		// the client's offset is the last packet it RECEIVED: any addressed packet before the disconnect was noticed
		// (the link may have been dead for a while: later packets, although emitted before the disconnect, are missed)
		if i < d && g.addressed && (offsetIdx < 0 || verifAnyBool()) {
			offset, offsetIdx = g.id, i
		}
		if i+1 == d {
			if offsetIdx < 0 {
				return // the client received nothing before it disconnected: it has no offset to present (not modelled)
			}
			verifAdvance(verifSteps()) // the server notices the disconnect some time after the last packet went out
			a.PersistSession(&SessionToPersist{SID: "sid1", PID: "pid1", Rooms: sessRooms})
			disconnectedAt = time.Now()
			c1 := verifChoose(0, 1)
			verifWake(c1)
			verifSettle()
		}
	}
	verifAdvance(verifSteps())
	c2 := verifChoose(0, 2)
	verifWake(c2)
	verifSettle()

	now := time.Now()
	sess, ok := a.RestoreSession("pid1", offset)
	age := now.Sub(disconnectedAt)
	if age > verifWindow+verifMargin {
		verifAssert(!ok, "a session older than the window is not restored")
	}
	if ok {
		verifAssert(sess.SID == "sid1" && sess.PID == "pid1" && len(sess.Rooms) == len(sessRooms) && sess.Rooms[0] == "sid1" && sess.Rooms[1] == sessRooms[1], "restored session has the persisted id and rooms")
		// no gap: exactly the addressed packets after the offset, in order
		k := 0
		for i := offsetIdx + 1; i < len(ghost); i++ {
			if ghost[i].addressed {
				verifAssert(k < len(sess.MissedPackets) && sess.MissedPackets[k].ID == ghost[i].id, "recovered session gets every missed packet addressed to it, in order (no gap)")
				k++
			}
		}
		verifAssert(k == len(sess.MissedPackets), "recovered session gets no packet twice and none not addressed to it")
	} else {
		// liveness inside the window: fresh session + fresh log from the offset on => must be recoverable
		fresh := age < verifWindow-verifMargin
		for i := offsetIdx; i < len(ghost); i++ {
			if now.Sub(ghost[i].at) >= verifWindow-verifMargin {
				fresh = false
			}
		}
		verifAssert(!fresh, "a session and log entries younger than the window stay recoverable whatever the clean-up passes")
	}
	verifAssert(verifHeldLocks() == 0, "the adapter's mutex is released whatever the outcome")
	verifReach("end")
}

// C08_unknown: unknown session id or unknown offset => not recovered.
//
//verif:unwind 30
//verif:sleep gate
//verif:replay anyassert
func verifH_C08_unknown() {
	st := &verifStore{socks: map[SocketID]Socket{}}
	inMem := NewInMemoryAdapterCreator()(st, func() parser.Parser { return &verifParser{} }).(*inMemoryAdapter)
	a := newSessionAwareAdapter(inMem, verifWindow, 0)
	hdr := &parser.PacketHeader{Type: parser.PacketTypeEvent, Namespace: "/"}
	a.Broadcast(hdr, []any{"ev"}, verifOpts(0))
	id := a.packets[0].ID
	a.PersistSession(&SessionToPersist{SID: "sid1", PID: "pid1", Rooms: []Room{"sid1"}})
	which := verifChoose(0, 4)
	switch which {
	case 0:
		_, ok := a.RestoreSession("other", id)
		verifAssert(!ok, "unknown private session id is not recovered")
	case 1:
		_, ok := a.RestoreSession("pid1", id+"x")
		verifAssert(!ok, "unknown offset is not recovered")
	case 3:
		// a client that disconnected before its first packet has no offset to present: clean fallback, not a replay
		// of the whole log
		_, ok := a.RestoreSession("pid1", "")
		verifAssert(!ok, "an empty offset is not recovered")
	case 4:
		// ANY offset string of 1..2 bytes that is not the id of a logged packet
		off := verifString(verifChoose(1, 2))
		verifAssume(off != id)
		_, ok := a.RestoreSession("pid1", off)
		verifAssert(!ok, "an offset that is not in the log is not recovered")
	case 2:
		// packets that are not plain events are not logged
		id7 := uint64(7)
		n := len(a.packets)
		a.Broadcast(&parser.PacketHeader{Type: parser.PacketTypeEvent, Namespace: "/", ID: &id7}, []any{"ev"}, verifOpts(0))
		a.Broadcast(&parser.PacketHeader{Type: parser.PacketTypeAck, Namespace: "/"}, []any{"ev"}, verifOpts(0))
		verifAssert(len(a.packets) == n, "only events without acknowledgement are logged")
	}
	verifAssert(verifHeldLocks() == 0, "the adapter's mutex is released whatever the outcome")
	// the adapter stays usable
	n := len(a.packets)
	a.Broadcast(hdr, []any{"ev"}, verifOpts(0))
	verifAssert(len(a.packets) == n+1, "the adapter keeps working after a refused restore")
	verifReach("end")
}

// C08_repersist: the same session is recovered more than once and its rooms change in between: it is persisted with rooms
// {sid, r0}, recovered, joins r1 and/or leaves r0 (symbolic), disconnects again (persisted with the new rooms), misses
// one broadcast to r0 and one to r1, and is recovered a second time. The second recovery restores exactly the rooms of
// the LATEST disconnection and replays exactly the missed packets addressed to those rooms, in order.
//
//verif:unwind 30
//verif:sleep gate
func verifH_C08_repersist() {
	st := &verifStore{socks: map[SocketID]Socket{}}
	inMem := NewInMemoryAdapterCreator()(st, func() parser.Parser { return &verifParser{} }).(*inMemoryAdapter)
	a := newSessionAwareAdapter(inMem, time.Hour, time.Hour)
	hdr := &parser.PacketHeader{Type: parser.PacketTypeEvent, Namespace: "/"}
	to := func(r Room) *BroadcastOptions {
		o := NewBroadcastOptions()
		o.Rooms.Add(r)
		return o
	}
	a.Broadcast(hdr, []any{"first"}, to("r0"))
	off1 := a.packets[0].ID
	a.PersistSession(&SessionToPersist{SID: "sid1", PID: "pid1", Rooms: []Room{"sid1", "r0"}})
	s1, ok1 := a.RestoreSession("pid1", off1)
	verifAssert(ok1 && len(s1.MissedPackets) == 0, "first recovery: nothing missed")
	// connected again: the rooms change
	joinR1, leaveR0 := verifAnyBool(), verifAnyBool()
	rooms := []Room{"sid1"}
	if !leaveR0 {
		rooms = append(rooms, "r0")
	}
	if joinR1 {
		rooms = append(rooms, "r1")
	}
	a.Broadcast(hdr, []any{"seen"}, to("sid1"))
	off2 := a.packets[len(a.packets)-1].ID
	a.PersistSession(&SessionToPersist{SID: "sid1", PID: "pid1", Rooms: rooms})
	a.Broadcast(hdr, []any{"to-r0"}, to("r0"))
	idR0 := a.packets[len(a.packets)-1].ID
	a.Broadcast(hdr, []any{"to-r1"}, to("r1"))
	idR1 := a.packets[len(a.packets)-1].ID
	s2, ok2 := a.RestoreSession("pid1", off2)
	verifAssert(ok2, "second recovery succeeds")
	if !ok2 {
		return
	}
	verifAssert(len(s2.Rooms) == len(rooms), "the rooms restored are those of the latest disconnection")
	for i := range rooms {
		verifAssert(i < len(s2.Rooms) && s2.Rooms[i] == rooms[i], "the rooms restored are those of the latest disconnection")
	}
	var want []string
	if !leaveR0 {
		want = append(want, idR0)
	}
	if joinR1 {
		want = append(want, idR1)
	}
	verifAssert(len(s2.MissedPackets) == len(want), "exactly the packets addressed to the rooms of the latest disconnection are replayed")
	for i := range want {
		verifAssert(i < len(s2.MissedPackets) && s2.MissedPackets[i].ID == want[i], "in order, none from a room that was left, none missing from a room that was joined")
	}
	verifReach("end")
}

// C08_clean_while_connected: clean-up passes also run while everybody is connected (no session persisted): the packet log
// must survive them, because it is where the offset of a client that disconnects LATER is looked up. P1 is emitted, 0..2
// passes run, the client disconnects (persisted), P2 is emitted, 0..1 passes, the client comes back well inside the
// window with P1 as its offset: recovered, and P2 - only P2 - is replayed.
//
//verif:unwind 30
//verif:sleep gate
func verifH_C08_clean_while_connected() {
	st := &verifStore{socks: map[SocketID]Socket{}}
	inMem := NewInMemoryAdapterCreator()(st, func() parser.Parser { return &verifParser{} }).(*inMemoryAdapter)
	period := time.Hour
	if verifIsNative() {
		period = 2 * time.Millisecond
	}
	a := newSessionAwareAdapter(inMem, time.Hour, period)
	hdr := &parser.PacketHeader{Type: parser.PacketTypeEvent, Namespace: "/"}
	a.Broadcast(hdr, []any{"p1"}, NewBroadcastOptions())
	a.mu.Lock()
	off := a.packets[len(a.packets)-1].ID
	a.mu.Unlock()
	verifWake(verifChoose(0, 2))
	verifSettle()
	a.PersistSession(&SessionToPersist{SID: "sid1", PID: "pid1", Rooms: []Room{"sid1"}})
	a.Broadcast(hdr, []any{"p2"}, NewBroadcastOptions())
	a.mu.Lock()
	id2 := a.packets[len(a.packets)-1].ID
	a.mu.Unlock()
	verifWake(verifChoose(0, 1))
	verifSettle()
	s, ok := a.RestoreSession("pid1", off)
	verifAssert(ok, "a client that comes back well inside the window is recovered, whatever clean-up passes ran while it was connected")
	if ok {
		verifAssert(len(s.MissedPackets) == 1 && s.MissedPackets[0].ID == id2, "and gets exactly what it missed")
	}
	verifReach("end")
}
