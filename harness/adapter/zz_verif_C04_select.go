package adapter

import (
	mapset "github.com/deckarep/golang-set/v2"

	"github.com/karagenc/socket.io-go/parser"
)

type mapsetRooms = mapset.Set[Room]

// C04_select: from EVERY membership matrix of S sockets x R rooms and every (T,E): the real Broadcast delivers to exactly
// the selected sockets, once each; with the sender's own-id room excluded (what a socket's broadcast operator does) the
// sender is never reached.
//
//verif:unwind 40
func verifH_C04_select() {
	S, R := 2, 2
	if verifThorough() {
		S, R = 3, 3
	}
	a, st, m := verifWorld(S, R)
	verifAssert(verifInvariant(a), "representation invariant after construction")
	T, tb := verifSubset(R)
	E, eb := verifSubset(R)
	opts := &BroadcastOptions{Rooms: T, Except: E}
	sender := -1
	if verifAnyBool() {
		sender = verifChoose(0, S-1)
		E.Add(Room(verifSIDs[sender]))
	}
	a.Broadcast(&parser.PacketHeader{Type: parser.PacketTypeEvent, Namespace: "/"}, []any{"ev"}, opts)
	for i := 0; i < S; i++ {
		want := 0
		if verifSelected(m, i, tb, eb) && i != sender {
			want = 1
		}
		verifAssert(verifCountSID(st.sent, verifSIDs[i]) == want, "broadcast reaches exactly the selected sockets, once each, never the sender")
	}
	verifAssert(verifHeldLocks() == 0, "adapter mutex released")
	verifReach("end")
}

// C04_step: one membership operation from EVERY reachable state: the new membership is the old one updated by the
// operation's specification and the representation invariant still holds (one inductive step covers all histories).
//
//verif:unwind 40
func verifH_C04_step() {
	S, R := 2, 2
	if verifThorough() {
		S, R = 3, 2 // 3x3 with the follow-up broadcast does not finish within the time budget
	}
	a, st, m := verifWorld(S, R)
	op := verifChoose(0, 6)
	i := verifChoose(0, S-1)
	j := verifChoose(0, R-1)
	exp := make([][]bool, S)
	for x := range exp {
		exp[x] = append([]bool(nil), m[x]...)
	}
	gone := make([]bool, S)
	ownLeft := -1
	switch op {
	case 0: // join
		a.AddAll(verifSIDs[i], []Room{verifRooms[j]})
		exp[i][j] = true
	case 1: // leave
		a.Delete(verifSIDs[i], verifRooms[j])
		exp[i][j] = false
	case 2: // leave all (disconnect)
		a.DeleteAll(verifSIDs[i])
		for y := range exp[i] {
			exp[i][y] = false
		}
		gone[i] = true
	case 6: // a socket leaves the room named after its own id (Leave(id) / SocketsLeave(id)): still connected, still reachable
		a.Delete(verifSIDs[i], Room(verifSIDs[i]))
		ownLeft = i
	case 3, 4, 5: // operator-wide join / leave / disconnect of the sockets selected by (T,E)
		T, tb := verifSubset(R)
		E, eb := verifSubset(R)
		b := NewBroadcastOperator("/", a, func(string) bool { return false })
		b.rooms, b.exceptRooms = T, E
		switch op {
		case 3:
			b.SocketsJoin(verifRooms[j])
		case 4:
			b.SocketsLeave(verifRooms[j])
		case 5:
			b.DisconnectSockets(false)
		}
		for x := 0; x < S; x++ {
			if verifSelected(m, x, tb, eb) {
				switch op {
				case 3:
					exp[x][j] = true
				case 4:
					exp[x][j] = false
				case 5:
					for y := range exp[x] {
						exp[x][y] = false
					}
					gone[x] = true
				}
			}
		}
	}
	verifAssert(verifInvariant(a), "representation invariant preserved by every operation")
	for x := 0; x < S; x++ {
		for y := 0; y < R; y++ {
			verifAssert(verifIn(a, verifSIDs[x], verifRooms[y]) == exp[x][y], "membership is exactly the net effect of the operation")
		}
		_, listed := a.sids[verifSIDs[x]]
		verifAssert(listed == !gone[x], "a disconnected socket belongs to no room and is forgotten")
		verifAssert(verifIn(a, verifSIDs[x], Room(verifSIDs[x])) == (!gone[x] && x != ownLeft), "own-id room kept unless disconnected or left explicitly")
	}
	// whatever the operation was: a broadcast without target rooms still reaches every socket that is connected, once
	st.sent = nil
	a.Broadcast(&parser.PacketHeader{Type: parser.PacketTypeEvent, Namespace: "/"}, []any{"ev"}, NewBroadcastOptions())
	for x := 0; x < S; x++ {
		want := 1
		if gone[x] {
			want = 0
		}
		verifAssert(verifCountSID(st.sent, verifSIDs[x]) == want, "after the operation a broadcast to everybody reaches every connected socket once, whatever rooms it has left")
	}
	verifReach("end")
}

// C04_immut: To/Except return operators whose sets do not alias the receiver's.
//
//verif:unwind 40
func verifH_C04_immut() {
	a, _, _ := verifWorld(1, 1)
	b := NewBroadcastOperator("/", a, func(string) bool { return false })
	b1 := b.To("r0")
	b2 := b1.To("r1").Except("r2")
	verifAssert(b.rooms.Cardinality() == 0 && b.exceptRooms.Cardinality() == 0, "To/Except leave the receiver untouched")
	verifAssert(b1.rooms.Cardinality() == 1 && b1.exceptRooms.Cardinality() == 0, "derived operator is independent of later derivations")
	verifAssert(b2.rooms.Cardinality() == 2 && b2.exceptRooms.Cardinality() == 1, "derivations accumulate")
	verifReach("end")
}

// C04_select_own: like C04_select, but the target and exception sets also range over the sockets' own-id rooms (what
// To(socketID) / Except(socketID) address), so a socket can be selected through its own room AND a joined room at once:
// still exactly once each. Also checks FetchSockets, which shares the selection code.
//
//verif:unwind 40
func verifH_C04_select_own() {
	S, R := 2, 2
	if verifThorough() {
		S, R = 3, 2
	}
	a, st, m0 := verifWorld(S, R)
	// membership matrix extended by the own-id rooms (column R+k is socket k's own room)
	m := make([][]bool, S)
	for i := range m {
		m[i] = append([]bool(nil), m0[i]...)
		for k := 0; k < S; k++ {
			m[i] = append(m[i], i == k)
		}
	}
	pick := func() (mapsetRooms, []bool) {
		set, bits := verifSubset(R)
		for k := 0; k < S; k++ {
			b := verifAnyBool()
			bits = append(bits, b)
			if b {
				set.Add(Room(verifSIDs[k]))
			}
		}
		return set, bits
	}
	T, tb := pick()
	E, eb := pick()
	opts := &BroadcastOptions{Rooms: T, Except: E}
	if verifAnyBool() {
		a.Broadcast(&parser.PacketHeader{Type: parser.PacketTypeEvent, Namespace: "/"}, []any{"ev"}, opts)
		for i := 0; i < S; i++ {
			want := 0
			if verifSelected(m, i, tb, eb) {
				want = 1
			}
			verifAssert(verifCountSID(st.sent, verifSIDs[i]) == want, "broadcast reaches exactly the selected sockets, once each, also when own-id rooms are targeted")
		}
	} else {
		got := a.FetchSockets(opts)
		for i := 0; i < S; i++ {
			n := 0
			for _, s := range got {
				if s.ID() == verifSIDs[i] {
					n++
				}
			}
			want := 0
			if verifSelected(m, i, tb, eb) {
				want = 1
			}
			verifAssert(n == want, "FetchSockets lists exactly the selected sockets, once each")
		}
	}
	verifAssert(verifHeldLocks() == 0, "adapter mutex released")
	verifReach("end")
}
