package adapter

import (
	"github.com/karagenc/socket.io-go/parser"
)

// C06_leaveall_adapter: what every connection end does to the rooms (serverSocket.onClose -> leaveAll -> DeleteAll), from EVERY
// membership of 2 sockets x 2 rooms - including sockets that have left the room named after their own id: after
// DeleteAll(sid) no room of the adapter lists the socket, the adapter has forgotten it, the other socket's membership is
// untouched, no empty room is kept, and the room index and the socket index are still mutually inverse.
//
//verif:unwind 40
func verifH_C06_leaveall_adapter() {
	S, R := 2, 2
	st := &verifStore{socks: map[SocketID]Socket{}}
	a := NewInMemoryAdapterCreator()(st, func() parser.Parser { return &verifParser{} }).(*inMemoryAdapter)
	in := make([][]bool, S)
	own := make([]bool, S)
	for i := 0; i < S; i++ {
		st.socks[verifSIDs[i]] = &verifSock{id: verifSIDs[i], a: a, store: st}
		a.AddAll(verifSIDs[i], []Room{Room(verifSIDs[i])})
		in[i] = make([]bool, R)
		for j := 0; j < R; j++ {
			in[i][j] = verifAnyBool()
			if in[i][j] {
				a.AddAll(verifSIDs[i], []Room{verifRooms[j]})
			}
		}
		own[i] = verifAnyBool()
		if !own[i] {
			a.Delete(verifSIDs[i], Room(verifSIDs[i])) // Leave(id) / SocketsLeave(id)
		}
	}
	verifAssert(verifInvariant(a), "representation invariant before")
	x := verifChoose(0, S-1)
	a.DeleteAll(verifSIDs[x])
	for room, set := range a.rooms {
		_ = room
		verifAssert(!set.Contains(verifSIDs[x]), "after the connection ended no room lists the socket")
	}
	_, known := a.sids[verifSIDs[x]]
	verifAssert(!known, "and the adapter has forgotten it")
	y := 1 - x
	for j := 0; j < R; j++ {
		verifAssert(verifIn(a, verifSIDs[y], verifRooms[j]) == in[y][j], "the other socket's rooms are untouched")
	}
	verifAssert(verifIn(a, verifSIDs[y], Room(verifSIDs[y])) == own[y], "the other socket's own room is untouched")
	verifAssert(verifInvariant(a), "no empty room is kept, room index and socket index stay mutually inverse")
	verifReach("end")
}
