package adapter

import (
	mapset "github.com/deckarep/golang-set/v2"
	"github.com/karagenc/socket.io-go/parser"
)

// C04_concurrent: a broadcast to room r0 racing a membership change of a third socket (join or leave of r0, or its
// disconnect), under all interleavings at synchronisation points. Interval semantics: socket s0, a member of r0
// throughout, receives the broadcast exactly once; s1, never a member, does not; the socket whose membership changes
// receives it at most once. No deadlock, no mutex left held (the adapter unlocks around its callbacks).
//
//verif:unwind 40
//verif:preempt 2
func verifH_C04_concurrent() {
	st := &verifStore{socks: map[SocketID]Socket{}}
	a := NewInMemoryAdapterCreator()(st, func() parser.Parser { return &verifParser{} }).(*inMemoryAdapter)
	for _, sid := range verifSIDs {
		st.socks[sid] = &verifSock{id: sid, a: a, store: st}
		a.AddAll(sid, []Room{Room(sid)})
	}
	a.AddAll("s0", []Room{"r0"})
	x2in := verifAnyBool()
	if x2in {
		a.AddAll("s2", []Room{"r0"})
	}
	op := verifChoose(0, 2)
	verifThreads(true)
	verifGo(func() {
		opts := &BroadcastOptions{Rooms: mapset.NewSet[Room]("r0"), Except: mapset.NewSet[Room]()}
		a.Broadcast(&parser.PacketHeader{Type: parser.PacketTypeEvent, Namespace: "/"}, []any{"ev"}, opts)
	})
	verifGo(func() {
		switch op {
		case 0:
			a.AddAll("s2", []Room{"r0"})
		case 1:
			a.Delete("s2", "r0")
		case 2:
			a.DeleteAll("s2")
		}
	})
	verifWaitQuiescent()
	verifAssert(verifCountSID(st.sent, "s0") == 1, "a member throughout receives the broadcast exactly once")
	verifAssert(verifCountSID(st.sent, "s1") == 0, "a non-member throughout does not receive it")
	verifAssert(verifCountSID(st.sent, "s2") <= 1, "a socket whose membership changes meanwhile receives it at most once")
	verifAssert(verifInvariant(a), "the representation invariant survives the race")
	verifAssert(verifBlocked() == 0 && verifHeldLocks() == 0, "no goroutine blocked, no mutex held")
	verifReach("end")
}
