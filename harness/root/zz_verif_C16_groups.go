package sio

import (
	"reflect"

	eioparser "github.com/karagenc/socket.io-go/engine.io/parser"
	"github.com/karagenc/socket.io-go/parser"
)

// C16 harnesses: each runs two goroutines (thorough: see directives) performing one operation each out of a group, under
// all interleavings at synchronisation points; the executor's monitors must stay silent: happens-before data race on any
// heap cell, a goroutine left blocked with nobody to release it, a mutex left held, unlock of an unlocked mutex, an
// escaping panic. The final assertions make "nothing blocked, nothing held" explicit.

func verifQuiet(msg string) {
	verifAssert(verifBlocked() == 0, "no goroutine left blocked: "+msg)
	verifAssert(verifHeldLocks() == 0, "no mutex left held: "+msg)
}

// C16_G1_handlerstore: on / once / off / offAll / getAll / forEach (with a handler that removes itself) on one store.
//
//verif:unwind 10
//verif:preempt 2
func verifH_C16_G1_handlerstore() {
	st := newHandlerStore[*ManagerOpenFunc]()
	hits := 0
	var self *ManagerOpenFunc
	f := ManagerOpenFunc(func() {
		hits++
		st.off(self) // a handler that removes itself while being dispatched
	})
	self = &f
	g := ManagerOpenFunc(func() {})
	st.on(&f)
	op := func(k int) {
		switch k {
		case 0:
			st.on(&g)
		case 1:
			st.once(&g)
		case 2:
			st.off(&g)
		case 3:
			st.offAll()
		case 4:
			st.forEach(func(h *ManagerOpenFunc) { (*h)() }, false)
		case 5:
			st.getAll()
		}
	}
	a, b := verifChoose(0, 5), verifChoose(0, 5)
	verifThreads(true)
	verifGo(func() { op(a) })
	verifGo(func() { op(b) })
	verifWaitQuiescent()
	verifQuiet("handlerStore")
	verifReach("end")
}

// C16_G2_eventstore: on / once / off / offAll / getAll on one eventHandlerStore.
//
//verif:unwind 10
//verif:preempt 2
func verifH_C16_G2_eventstore() {
	st := newEventHandlerStore()
	st.on("x", verifEH(0))
	op := func(k int) {
		switch k {
		case 0:
			st.on("x", verifEH(1))
		case 1:
			st.once("x", verifEH(2))
		case 2:
			st.off("x", reflect.ValueOf(verifHandlerFns[0]))
		case 3:
			st.offAll()
		case 4:
			st.getAll("x")
		case 5:
			st.off("x")
		case 6:
			// misuse: something that is not a function is named for removal. The call panics (reflect refuses it) - the
			// application recovers, as the library does around handlers - but the store must survive that
			func() {
				defer func() { _ = recover() }()
				st.off("x", reflect.ValueOf(42))
			}()
		}
	}
	a, b := verifChoose(0, 6), verifChoose(0, 6)
	verifThreads(true)
	verifGo(func() { op(a) })
	verifGo(func() { op(b) })
	verifWaitQuiescent()
	verifQuiet("eventHandlerStore")
	// the store is still usable
	st.on("y", verifEH(3))
	verifAssert(len(st.getAll("y")) == 1, "the store keeps working after every pair of operations, a refused one included")
	verifReach("end")
}

// C16_G3_packetqueue: add / get / reset / close / waitForDrain / poll racing on one packetQueue. A poll or a
// waitForDrain may legitimately stay parked (that is their job); everything else must finish and no lock may stay held.
//
//verif:unwind 10
//verif:preempt 2
func verifH_C16_G3_packetqueue() {
	pq := newPacketQueue()
	pk := &eioparser.Packet{Type: eioparser.PacketTypeMessage, Data: []byte{'a'}}
	parks := 0
	op := func(k int) {
		switch k {
		case 0:
			pq.add(pk)
		case 1:
			pq.get()
		case 2:
			pq.reset()
		case 3:
			pq.close()
		case 4:
			pq.add(pk)
			pq.add(pk)
		}
	}
	a, b := verifChoose(0, 4), verifChoose(0, 4)
	withPoller := verifAnyBool()
	verifThreads(true)
	if withPoller {
		parks = 1
		verifGo(func() { pq.poll() })
	}
	verifGo(func() { op(a) })
	verifGo(func() { op(b) })
	verifWaitQuiescent()
	verifAssert(verifBlocked() <= parks, "only the poller may stay parked")
	verifAssert(verifHeldLocks() == 0, "no mutex left held: packetQueue")
	verifReach("end")
}

// C16_G7_serversocket: Join / Leave / emit-with-ack registration / onAck / onClose / Disconnect racing on one connected
// server socket.
//
//verif:unwind 14
//verif:preempt.quick 1
//verif:preempt.thorough 2
//verif:visops 120
//verif:rand concrete
func verifH_C16_G7_serversocket() {
	w := verifServerWorld("/")
	s := w.verifConnected("/")["/"]
	// the ack callback calls back into the socket (emit with another ack, join a room): operations issued from handlers
	id := s.registerAckHandler(func(string) {
		s.registerAckHandler(func(string) {}, 0)
		s.Join("from-callback")
	}, 0)
	op := func(k int) {
		switch k {
		case 0:
			s.Join("r1")
		case 1:
			s.Leave("r1")
		case 2:
			s.registerAckHandler(func(string) {}, 0)
		case 3:
			rid := id
			s.onAck(&parser.PacketHeader{Type: parser.PacketTypeAck, Namespace: "/", ID: &rid}, verifReplyDecode("x"))
		case 4:
			s.onClose(ReasonTransportClose)
		case 5:
			s.Disconnect(false)
		case 6:
			s.Rooms()
		}
	}
	a, b := verifChoose(0, 6), verifChoose(0, 6)
	verifThreads(true)
	verifGo(func() { op(a) })
	verifGo(func() { op(b) })
	verifWaitQuiescent()
	verifAssert(verifBlocked() == 0, "no goroutine left blocked: serverSocket")
	verifAssert(verifHeldLocks() == 0, "no mutex left held: serverSocket")
	verifReach("end")
}
