package sio

import (
	"reflect"

	"github.com/karagenc/socket.io-go/adapter"
	"github.com/karagenc/socket.io-go/parser"
)

// C08_glue_client: the client records the offset the server appends as the last argument of every event - iff it holds
// a private session id - and strips it before the handler sees the arguments; without a session id the arguments are
// passed through untouched.
//
//verif:unwind 12
func verifH_C08_glue_client() {
	_, cl := verifClientWorld(&verifPipeParser{}, "/")
	s := cl["/"]
	withPID := verifAnyBool()
	if withPID {
		s.setPID("pid1")
	}
	nargs := -1
	var first string
	offset := verifString(2)
	// values as the decoder delivers them: the event's own argument, then the offset the server appended
	hv, err := newEventHandler(func(a string) { nargs = 1; first = a })
	verifAssert(err == nil, "handler accepted")
	args := []reflect.Value{reflect.ValueOf("payload"), reflect.ValueOf(offset)}
	if !withPID {
		hv, _ = newEventHandler(func(a string, b string) { nargs = 2; first = a })
	}
	s.callEvent(hv, &parser.PacketHeader{Type: parser.PacketTypeEvent, Namespace: "/"}, args, nil)
	got, has := s.lastOffset()
	if withPID {
		verifAssert(has && got == offset, "with a session id the trailing offset argument is recorded as the last offset")
		verifAssert(nargs == 1 && first == "payload", "and stripped before the handler is called")
	} else {
		verifAssert(!has, "without a session id no offset is recorded")
		verifAssert(nargs == 2 && first == "payload", "and the arguments reach the handler untouched")
	}
	verifReach("end")
}

// C08_glue_server: a recovered session re-joins exactly its persisted rooms and is sent exactly its missed packets,
// in order, before anything else (real newServerSocket with a previous session).
//
//verif:unwind 12
//verif:rand concrete
func verifH_C08_glue_server() {
	w := verifServerWorld("/")
	n := w.nsp("/")
	k := verifChoose(0, 3)
	var missed []*adapter.PersistedPacket
	for i := 0; i < k; i++ {
		missed = append(missed, &adapter.PersistedPacket{ID: string([]byte{'y', byte('0' + i)}), Header: &parser.PacketHeader{Type: parser.PacketTypeEvent, Namespace: "/"}, Data: []any{"ev", i}})
	}
	withRoom := verifAnyBool()
	rooms := []Room{"sidX"}
	if withRoom {
		rooms = append(rooms, "lobby")
	}
	before := len(w.encoded)
	s, err := newServerSocket(w.server, w.conn, n, w.conn.parser, &adapter.SessionToPersist{SID: "sidX", PID: "pidX", Rooms: rooms, MissedPackets: missed})
	verifAssert(err == nil && s != nil, "a recovered socket is created")
	verifAssert(s.ID() == "sidX" && s.Recovered(), "it keeps the persisted socket id and is marked recovered")
	verifAssert(verifInRoom(n, "sidX", "sidX") && verifInRoom(n, "sidX", "lobby") == withRoom, "it re-joins exactly the persisted rooms")
	verifAssert(len(w.encoded)-before == k, "exactly the missed packets are re-sent")
	for i := 0; i < k && before+i < len(w.encoded); i++ {
		data, _ := w.encoded[before+i].v.(*[]any)
		verifAssert(data != nil && len(*data) == 2 && (*data)[1] == i, "in emission order")
	}
	verifAssert(len(w.conn.eioPacketQueue.get()) == k, "each as one packet on the connection's queue")
	verifReach("end")
}
