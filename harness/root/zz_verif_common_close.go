package sio

import (
	"github.com/karagenc/socket.io-go/parser"
)

// verifCause delivers one termination cause to a connected socket.
func verifCause(w *verifSrv, s *serverSocket, kind int) {
	switch kind {
	case 0:
		w.conn.onClose(ReasonTransportClose, nil) // the Engine.IO connection died
	case 1:
		s.onDisconnect() // the client sent DISCONNECT for this namespace
	case 2:
		s.Disconnect(false) // the server disconnects the namespace
	case 3:
		s.Disconnect(true) // the server closes the connection
	case 4:
		s.onClose(ReasonServerShuttingDown) // what Server.Close does for every socket
	}
}

var verifCauseReason = []Reason{ReasonTransportClose, ReasonClientNamespaceDisconnect, ReasonServerNamespaceDisconnect, ReasonForcedServerClose, ReasonServerShuttingDown}

// verifReasonOf: does reason r name cause kind? (closing the connection from the server disconnects every namespace
// first, so it may be reported as a server namespace disconnect)
func verifReasonOf(r Reason, kind int) bool {
	if r == verifCauseReason[kind] {
		return true
	}
	return kind == 3 && r == ReasonServerNamespaceDisconnect
}

// verifJoinRaceBody is the body shared by C06_join_race and C04_join_race (see there).
func verifJoinRaceBody() {
	w := verifServerWorld("/")
	n := w.nsp("/")
	w.conn.connect(&parser.PacketHeader{Type: parser.PacketTypeConnect, Namespace: "/"}, verifNoDecode)
	verifWaitQuiescent()
	socks := n.Sockets()
	verifAssert(len(socks) == 1, "socket connected")
	s := socks[0].(*serverSocket)
	sid := s.ID()
	s.Join("room1")
	cause := verifChoose(0, 4)
	viaOperator := verifAnyBool()
	verifThreads(true)
	verifGo(func() { verifCause(w, s, cause) })
	verifGo(func() {
		if viaOperator {
			n.SocketsJoin("late")
		} else {
			s.Join("late")
		}
	})
	verifWaitQuiescent()
	verifAssert(len(n.Sockets()) == 0, "the namespace no longer lists the socket")
	rooms, hasRooms := n.adapter.SocketRooms(sid)
	verifAssert(!hasRooms || rooms.Cardinality() == 0, "the socket is in no room any more, however a late Join interleaves with the teardown")
	verifAssert(!verifInRoom(n, sid, "late") && !verifInRoom(n, sid, "room1"), "no room lists the socket")
	verifAssert(verifHeldLocks() == 0, "no mutex left held")
	verifReach("end")
}
