package sio

import (
	"time"
)

// C15_backoff: the back-off calculator for ALL (min, max, jitter, random draw) with 0 < min <= max <= 2^53 ns and every
// attempt number 0..70 (covering the float->int overflow at 2^63 and the int64 wrap-around of min*2^k): the delay is
// within (0, max]; without jitter the first delay is exactly min (capped by max).
// Natively (replay) the random draw cannot be injected, so the native body repeats the call 200000 times.
//
//verif:unwind 8
func verifH_C15_backoff() {
	// quick: one attempt number per regime (no overflow / int64 wrap of min*2^k / 2^63 float->int overflow);
	// thorough: every attempt number 0..70
	k := 0
	if verifThorough() {
		k = verifChoose(0, 70)
	} else {
		ks := []int{0, 31, 62, 63}
		k = ks[verifChoose(0, len(ks)-1)]
	}
	min := verifAnyInt64()
	max := verifAnyInt64()
	verifAssume(min > 0 && min <= max && max <= 1<<53)
	jitter := verifAnyFloat32()
	b := newBackoff(time.Duration(min), time.Duration(max), jitter)
	reps := 1
	if verifIsNative() {
		reps = 200000
	}
	for i := 0; i < reps; i++ {
		b.numAttempts = uint32(k)
		d := int64(b.duration())
		// one obligation per path instead of two (each FP query costs seconds): branch-free conjunction
		verifAssert(verifIte(d > 0, 1, 0)+verifIte(d <= max, 1, 0) == 2, "back-off delay is within (0, ReconnectionDelayMax]")
		verifAssert(b.numAttempts == uint32(k)+1, "each call counts one attempt")
		if !(jitter > 0 && jitter <= 1) && k == 0 {
			verifAssert(d == min, "without jitter the first delay is ReconnectionDelay")
		}
	}
	b.reset()
	verifAssert(b.attempts() == 0, "reset clears the attempt counter")
	verifReach("end")
}

// C15_backoff_mono: without jitter delays do not decrease while min*2^(k+1) still fits an int64 (the repo's own test
// property, for all (min,max) instead of one pair).
//
//verif:unwind 8
func verifH_C15_backoff_mono() {
	k := verifChoose(0, 40)
	min := verifAnyInt64()
	max := verifAnyInt64()
	verifAssume(min > 0 && min <= max && max <= 1<<53)
	verifAssume(min <= (1<<62)>>uint(k+1))
	b := newBackoff(time.Duration(min), time.Duration(max), 0)
	b.numAttempts = uint32(k)
	d1 := b.duration()
	d2 := b.duration()
	verifAssert(d1 <= d2, "without jitter the delay does not decrease from one attempt to the next")
	verifReach("end")
}
