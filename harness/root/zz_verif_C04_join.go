package sio

// C04_join_race: "a disconnected socket belongs to no room", seen from the adapter's side: a Join from another goroutine
// (or a SocketsJoin of an operator) races one termination cause of the socket under all interleavings at
// synchronisation points; afterwards no room of the adapter lists the socket (kernel shared with C06_join_race).
//
//verif:unwind 16
//verif:rand concrete
//verif:preempt 2
//verif:visops 120
func verifH_C04_join_race() { verifJoinRaceBody() }
