package sio

import (
	"reflect"

	eioparser "github.com/karagenc/socket.io-go/engine.io/parser"
	"github.com/karagenc/socket.io-go/parser"
)

// verifFrameIs: header frames are compared by the event name they carry, attachment frames by content.
func verifFrameIs(p *eioparser.Packet, want []byte) bool {
	if p.IsBinary {
		return verifEqBytes(p.Data, want)
	}
	// header frame "2/,<name>#k" or "5/,<name>#k"
	if len(p.Data) < 4+len(want) {
		return false
	}
	return verifEqBytes(p.Data[3:3+len(want)], want)
}

// verifOnConnectOrderBody is the body shared by C15_offline_onconnect and C02_onconnect_order (see there).
func verifOnConnectOrderBody() {
	m, cl := verifClientWorld(&verifPipeParser{}, "/")
	c := cl["/"]
	c.state = clientSocketConnStateDisconnected
	e := verifChoose(1, 3)
	var want [][]byte
	for i := 0; i < e; i++ {
		name := string([]byte{'e', byte('0' + i)})
		volatile := verifAnyBool()
		c.emit(name, 0, volatile, false)
		if !volatile {
			want = append(want, []byte(name))
		}
	}
	c.OnConnect(func() { c.Emit("online") })
	want = append(want, []byte("online"))
	info := &sidInfo{SID: "sid1"}
	c.onConnect(&parser.PacketHeader{Type: parser.PacketTypeConnect, Namespace: "/"}, func(types ...reflect.Type) ([]reflect.Value, error) {
		return []reflect.Value{reflect.ValueOf(info)}, nil
	})
	verifWaitQuiescent()
	got := m.eioPacketQueue.get()
	verifAssert(len(got) == len(want), "exactly the non-volatile offline emits and the emit of the connect handler are sent")
	if len(got) == len(want) {
		for i := range want {
			verifAssert(verifFrameIs(got[i], want[i]), "offline emits go out first, in the order they were emitted; what a connect handler emits follows them")
		}
	}
	verifReach("end")
}
