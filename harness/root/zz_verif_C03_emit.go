package sio

import (
	"time"

	"github.com/karagenc/socket.io-go/parser"
)

// verifExpire lets the ack timer (held back until here: the reply came well within the timeout) run out.
func verifExpire() {
	verifWake(1)
	if verifIsNative() {
		time.Sleep(60 * time.Millisecond)
	}
	verifWaitQuiescent()
}

// C03_emit_client: through the public API. A client emits with an ack function (with and without timeout) and the peer
// answers at once (well within the timeout: the timer is held back until the reply is in): the ACK is dispatched while the emitter is still inside the send (inbound packets are handled on
// their own goroutines, so this order is a real schedule). The callback gets that reply, exactly once, no timeout
// error; the ack entry is gone afterwards.
//
//verif:unwind 12
//verif:preempt 2
//verif:sleep gate
func verifH_C03_emit_client() {
	var log []verifEncoded
	_, cl := verifClientWorld(verifRecParser{log: &log}, "/")
	s := cl["/"]
	withTimeout := verifAnyBool()
	calls, replied := 0, 0
	var gotErr error
	gotArg := ""
	send := s.sendBuffers
	s.sendBuffers = func(volatile, forceSend bool, ackID *uint64, buffers ...[]byte) {
		send(volatile, forceSend, ackID, buffers...)
		if ackID != nil {
			rid := *ackID
			replied++
			s.onAck(&parser.PacketHeader{Type: parser.PacketTypeAck, Namespace: "/", ID: &rid}, verifReplyDecode("reply"))
		}
	}
	verifThreads(true)
	if withTimeout {
		s.Timeout(30*time.Millisecond).Emit("q", "x", func(err error, arg string) {
			calls++
			gotErr, gotArg = err, arg
		})
	} else {
		s.Emit("q", "x", func(arg string) {
			calls++
			gotArg = arg
		})
	}
	verifWaitQuiescent()
	verifExpire()
	verifAssert(replied == 1, "an emit with an ack function carries an ack id")
	verifAssert(calls == 1, "the callback runs exactly once when the reply is processed before the emitter resumes")
	verifAssert(gotErr == nil, "a reply that arrived in time is not reported as a timeout")
	verifAssert(gotArg == "reply", "the callback gets the reply's argument")
	s.acksMu.Lock()
	n := len(s.acks)
	s.acksMu.Unlock()
	verifAssert(n == 0, "the ack entry is removed")
	verifAssert(verifHeldLocks() == 0 && verifBlocked() == 0, "no mutex left held, no goroutine blocked")
	verifReach("end")
}

// C03_emit_server: the server-side twin with real threads: the peer answers as soon as the event is on the connection's
// queue, in every interleaving with the rest of the emitter's code.
//
//verif:unwind 12
//verif:preempt 2
//verif:rand concrete
//verif:sleep gate
func verifH_C03_emit_server() {
	w := verifServerWorld("/")
	s := w.verifConnected("/")["/"]
	w.conn.eioPacketQueue.get() // the CONNECT reply
	withTimeout := verifAnyBool()
	calls := 0
	var gotErr error
	gotArg := ""
	verifThreads(true)
	verifGo(func() {
		if withTimeout {
			s.Timeout(30*time.Millisecond).Emit("q", "x", func(err error, arg string) {
				calls++
				gotErr, gotArg = err, arg
			})
		} else {
			s.Emit("q", "x", func(arg string) {
				calls++
				gotArg = arg
			})
		}
	})
	verifGo(func() {
		// the peer: it can only answer what has been sent
		verifAssume(len(w.conn.eioPacketQueue.get()) > 0)
		var id *uint64
		for _, e := range w.encoded {
			if e.typ == parser.PacketTypeEvent && e.id != nil {
				id = e.id
			}
		}
		verifAssert(id != nil, "an emit with an ack function carries an ack id")
		if id == nil {
			return
		}
		rid := *id
		s.onAck(&parser.PacketHeader{Type: parser.PacketTypeAck, Namespace: "/", ID: &rid}, verifReplyDecode("reply"))
	})
	verifWaitQuiescent()
	verifExpire()
	verifAssert(calls == 1, "the callback runs exactly once however early the reply is processed")
	verifAssert(gotErr == nil, "a reply that arrived in time is not reported as a timeout")
	verifAssert(gotArg == "reply", "the callback gets the reply's argument")
	verifAssert(verifHeldLocks() == 0 && verifBlocked() == 0, "no mutex left held, no goroutine blocked")
	verifReach("end")
}

// C03_reconnect_ids: acks outstanding across a reconnection. A client emits A with an ack and a timeout, loses the
// connection (onClose) before the reply, is connected again and emits B with an ack; then A's timer runs out and the
// peer's reply to B arrives (B's id read from the frame that was sent). A's callback gets ErrAckTimeout once, B's
// callback gets B's reply once: an ack id still held by an outstanding ack is never handed out again.
//
//verif:unwind 12
//verif:sleep gate
func verifH_C03_reconnect_ids() {
	var log []verifEncoded
	_, cl := verifClientWorld(verifRecParser{log: &log}, "/")
	s := cl["/"]
	callsA, callsB := 0, 0
	var errA, errB error
	argB := ""
	s.Timeout(30*time.Millisecond).Emit("a", func(err error, arg string) {
		callsA++
		errA = err
	})
	reasons := []Reason{ReasonTransportClose, ReasonPingTimeout, ReasonIOServerDisconnect}
	s.onClose(reasons[verifChoose(0, 2)])
	s.stateMu.Lock()
	s.state = clientSocketConnStateConnected // the CONNECT of the new session arrived
	s.stateMu.Unlock()
	before := len(log)
	s.Emit("b", func(arg string) {
		callsB++
		argB = arg
	})
	var idB *uint64
	for _, e := range log[before:] {
		if e.typ == parser.PacketTypeEvent && e.id != nil {
			idB = e.id
		}
	}
	verifAssert(idB != nil, "B is sent with an ack id")
	if idB == nil {
		return
	}
	// A's 30 ms run out
	verifWake(1)
	if verifIsNative() {
		time.Sleep(60 * time.Millisecond)
	}
	verifSettle()
	verifAssert(callsA == 1 && errA == ErrAckTimeout, "the ack that was outstanding when the connection dropped times out, once")
	rid := *idB
	s.onAck(&parser.PacketHeader{Type: parser.PacketTypeAck, Namespace: "/", ID: &rid}, verifReplyDecode("reply-b"))
	verifAssert(callsB == 1 && errB == nil && argB == "reply-b", "the reply to the event emitted after the reconnection reaches that event's callback")
	verifAssert(callsA == 1, "and nobody else's")
	verifReach("end")
}

// C03_ack_chain: a chained request / response: the acknowledgement callback of one emit emits again with an ack function
// of its own, on the same socket, server side and client side. The first reply reaches the first callback, nothing
// deadlocks inside it (the inner emit registers its ack handler), and the second reply then reaches the second
// callback - each exactly once, with its own argument.
//
//verif:unwind 12
//verif:rand concrete
func verifH_C03_ack_chain() {
	onServer := verifAnyBool()
	first, second := 0, 0
	a1, a2 := "", ""
	var ids []uint64
	var onAck func(id uint64, val string)
	if onServer {
		w := verifServerWorld("/")
		s := w.verifConnected("/")["/"]
		s.Emit("one", func(arg string) {
			first++
			a1 = arg
			s.Emit("two", func(arg string) {
				second++
				a2 = arg
			})
		})
		onAck = func(id uint64, val string) {
			s.onAck(&parser.PacketHeader{Type: parser.PacketTypeAck, Namespace: "/", ID: &id}, verifReplyDecode(val))
		}
		for _, e := range w.encoded {
			if e.typ == parser.PacketTypeEvent && e.id != nil {
				ids = append(ids, *e.id)
			}
		}
		verifAssert(len(ids) == 1, "the first emit carries an ack id")
		onAck(ids[0], "r1")
		ids = nil
		for _, e := range w.encoded {
			if e.typ == parser.PacketTypeEvent && e.id != nil {
				ids = append(ids, *e.id)
			}
		}
	} else {
		var log []verifEncoded
		_, cl := verifClientWorld(verifRecParser{log: &log}, "/")
		s := cl["/"]
		s.Emit("one", func(arg string) {
			first++
			a1 = arg
			s.Emit("two", func(arg string) {
				second++
				a2 = arg
			})
		})
		onAck = func(id uint64, val string) {
			s.onAck(&parser.PacketHeader{Type: parser.PacketTypeAck, Namespace: "/", ID: &id}, verifReplyDecode(val))
		}
		for _, e := range log {
			if e.typ == parser.PacketTypeEvent && e.id != nil {
				ids = append(ids, *e.id)
			}
		}
		verifAssert(len(ids) == 1, "the first emit carries an ack id")
		onAck(ids[0], "r1")
		ids = nil
		for _, e := range log {
			if e.typ == parser.PacketTypeEvent && e.id != nil {
				ids = append(ids, *e.id)
			}
		}
	}
	verifWaitQuiescent()
	verifAssert(first == 1 && a1 == "r1", "the first reply reaches the first callback, once")
	verifAssert(len(ids) == 2, "the callback's own emit went out with an ack id of its own")
	verifAssert(verifHeldLocks() == 0 && verifBlocked() == 0, "no mutex is held and nothing is blocked after a callback that emitted again")
	if len(ids) == 2 {
		onAck(ids[1], "r2")
		verifWaitQuiescent()
		verifAssert(second == 1 && a2 == "r2" && first == 1, "the second reply reaches the second callback, once")
	}
	verifReach("end")
}
