package sio

import (
	"time"

	"github.com/karagenc/socket.io-go/parser"
)

// C03_race_server: an ack with timeout on a server socket; the reply (optionally duplicated) races the timer in every
// order. The callback runs exactly once; a reply that wins carries its own arguments; without any reply the callback
// gets ErrAckTimeout; the ack entry is gone and no mutex is left held.
//
//verif:unwind 10
//verif:preempt 3
func verifH_C03_race_server() {
	s := verifServerSock()
	replies := verifChoose(0, 2)
	calls := 0
	var gotErr error
	gotArg := ""
	id := s.registerAckHandler(func(err error, arg string) {
		calls++
		gotErr, gotArg = err, arg
	}, 30*time.Millisecond)
	verifThreads(true)
	for i := 0; i < replies; i++ {
		verifGo(func() {
			rid := id
			s.onAck(&parser.PacketHeader{Type: parser.PacketTypeAck, Namespace: "/", ID: &rid}, verifReplyDecode("reply"))
		})
	}
	verifWaitQuiescent()
	verifAssert(calls == 1, "an ack callback with timeout runs exactly once, whatever the race between reply and timer")
	if replies == 0 {
		verifAssert(gotErr == ErrAckTimeout, "without a reply the callback gets ErrAckTimeout")
	}
	if gotErr == nil {
		verifAssert(gotArg == "reply", "a reply is delivered with the arguments it carried")
	} else {
		verifAssert(gotErr == ErrAckTimeout && gotArg == "", "a timed-out ack gets ErrAckTimeout and zero values")
	}
	_, still := s.acks[id]
	verifAssert(!still, "the ack entry is removed")
	verifAssert(verifHeldLocks() == 0, "no mutex left held")
	verifAssert(verifBlocked() == 0, "no goroutine left blocked")
	verifReach("end")
}

// C03_notimeout_server: without timeout the callback runs at most once even if the reply is duplicated concurrently,
// and only for the id it was registered under.
//
//verif:unwind 10
//verif:preempt 3
func verifH_C03_ids_server() {
	s := verifServerSock()
	calls := [3]int{}
	ids := [3]uint64{}
	for k := 0; k < 3; k++ {
		kk := k
		ids[k] = s.registerAckHandler(func(arg string) { calls[kk]++ }, 0)
	}
	verifAssert(ids[0] != ids[1] && ids[1] != ids[2] && ids[0] != ids[2], "outstanding acks get distinct ids")
	errs := 0
	f := ServerSocketErrorFunc(func(err error) { errs++ })
	s.errorHandlers.on(&f)
	// a reply with an ARBITRARY 64-bit id, twice (sequentially: forEach dispatches error handlers on a goroutine)
	rid := verifAnyUint64()
	s.onAck(&parser.PacketHeader{Type: parser.PacketTypeAck, Namespace: "/", ID: &rid}, verifReplyDecode("x"))
	s.onAck(&parser.PacketHeader{Type: parser.PacketTypeAck, Namespace: "/", ID: &rid}, verifReplyDecode("x"))
	verifWaitQuiescent()
	for k := 0; k < 3; k++ {
		want := 0
		if rid == ids[k] {
			want = 1
		}
		verifAssert(calls[k] == want, "only the callback registered under exactly that id runs, and at most once")
	}
	known := rid == ids[0] || rid == ids[1] || rid == ids[2]
	if known {
		verifAssert(errs == 1, "the duplicate reply is reported as an error")
	} else {
		verifAssert(errs == 2, "a reply with an unknown id is reported as an error")
	}
	verifReach("end")
}

// C03_offline_client: a disconnected client socket buffers m emits (each 1+a frames, some with ack + timeout); the
// timeout of one of them fires while the packet is still buffered. The callback runs exactly once with ErrAckTimeout, the
// buffer afterwards holds exactly the frames of the OTHER packets in order, no mutex is left held and the socket can
// buffer further packets.
//
//verif:unwind 16
func verifH_C03_offline_client() {
	M, A := 2, 2
	if verifThorough() {
		M, A = 3, 3
	}
	s := verifClientSock()
	m := verifChoose(1, M)
	target := verifChoose(0, m-1) // the emit whose ack times out
	calls := 0
	var gotErr error
	var want []*sendBufferItem
	type emitRec struct {
		frames int
		ackID  *uint64
	}
	var emits []emitRec
	// register + buffer; timers are parked until released below
	for e := 0; e < m; e++ {
		a := verifChoose(0, A)
		var ackID *uint64
		if e == target {
			id := s.registerAckHandler(func(err error, arg string) {
				calls++
				gotErr = err
			}, 30*time.Millisecond)
			ackID = &id
		} else if verifAnyBool() {
			id := s.registerAckHandler(func(arg string) {}, 0)
			ackID = &id
		}
		bufs := make([][]byte, 1+a)
		for i := range bufs {
			bufs[i] = []byte{byte('0' + e), byte('0' + i)}
		}
		s._sendBuffers(false, false, ackID, bufs...)
		emits = append(emits, emitRec{1 + a, ackID})
	}
	// expected remainder: all items not belonging to the target emit
	total := 0
	for e, em := range emits {
		for i := 0; i < em.frames; i++ {
			if e != target {
				it := s.sendBuffer[total]
				want = append(want, &it)
			}
			total++
		}
	}
	verifAssert(len(s.sendBuffer) == total, "every frame of an offline emit is buffered")
	verifWake(1) // let the ack timer fire
	verifWaitQuiescent()
	verifAssert(calls == 1 && gotErr == ErrAckTimeout, "the ack of a packet still buffered offline times out exactly once with ErrAckTimeout")
	verifAssert(verifHeldLocks() == 0, "no mutex left held after the timeout")
	verifAssert(verifBlocked() == 0, "no goroutine left blocked")
	if verifHeldLocks() == 0 {
		verifAssert(len(s.sendBuffer) == len(want), "the timed-out packet's frames, and only those, are purged from the offline buffer")
		if len(s.sendBuffer) == len(want) {
			for i := range want {
				verifAssert(s.sendBuffer[i].packet == want[i].packet, "the other buffered packets keep their frames in order")
			}
		}
		s._sendBuffers(false, false, nil, []byte("later"))
		verifAssert(len(s.sendBuffer) == len(want)+1, "the socket remains usable")
	}
	verifReach("end")
}

// C03_race_client: the client-side twin of C03_race_server (client -> server emit with timeout; reply racing the timer).
//
//verif:unwind 10
//verif:preempt 3
func verifH_C03_race_client() {
	_, cl := verifClientWorld(&verifPipeParser{}, "/")
	s := cl["/"]
	replies := verifChoose(0, 2)
	calls := 0
	var gotErr error
	gotArg := ""
	id := s.registerAckHandler(func(err error, arg string) {
		calls++
		gotErr, gotArg = err, arg
	}, 30*time.Millisecond)
	verifThreads(true)
	for i := 0; i < replies; i++ {
		verifGo(func() {
			rid := id
			s.onAck(&parser.PacketHeader{Type: parser.PacketTypeAck, Namespace: "/", ID: &rid}, verifReplyDecode("reply"))
		})
	}
	verifWaitQuiescent()
	verifAssert(calls == 1, "an ack callback with timeout runs exactly once, whatever the race between reply and timer")
	if replies == 0 {
		verifAssert(gotErr == ErrAckTimeout, "without a reply the callback gets ErrAckTimeout")
	}
	if gotErr == nil {
		verifAssert(gotArg == "reply", "a reply is delivered with the arguments it carried")
	} else {
		verifAssert(gotErr == ErrAckTimeout && gotArg == "", "a timed-out ack gets ErrAckTimeout and zero values")
	}
	_, still := s.acks[id]
	verifAssert(!still, "the ack entry is removed")
	verifAssert(verifHeldLocks() == 0 && verifBlocked() == 0, "no mutex left held, no goroutine blocked")
	verifReach("end")
}

// C03_one_reply: the receiving side answers an event at most once: a handler that calls its ack function from two
// goroutines at the same time produces exactly one ACK packet, carrying the id of that very event.
//
//verif:unwind 12
//verif:preempt 2
//verif:rand concrete
func verifH_C03_one_reply() {
	w := verifServerWorld("/")
	w.conn.parser = &verifFrameParser{log: &w.encoded}
	s := w.verifConnected("/")["/"]
	s.OnEvent("q", func(ack func(string)) {
		verifGo(func() { ack("first") })
		verifGo(func() { ack("second") })
	})
	id := verifAnyUint64()
	before := w.countEncoded(parser.PacketTypeAck, "/")
	verifThreads(true)
	err := s.onPacket(&parser.PacketHeader{Type: parser.PacketTypeEvent, Namespace: "/", ID: &id}, "q", verifArgDecode)
	verifWaitQuiescent()
	verifAssert(err == nil, "the event is dispatched")
	verifAssert(w.countEncoded(parser.PacketTypeAck, "/")-before == 1, "an event is acknowledged exactly once however often and concurrently its ack function is called")
	verifAssert(verifHeldLocks() == 0, "no mutex left held")
	verifReach("end")
}
