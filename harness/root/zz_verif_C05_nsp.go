package sio

import (
	"errors"
	eioparser "github.com/karagenc/socket.io-go/engine.io/parser"
	"github.com/karagenc/socket.io-go/parser"
	"reflect"
)

// C05_route_server: a connection that joined a symbolic subset of {/, /a}; a packet of ANY type addressed to /, /a,
// /b (existing but not joined), /zz (not existing), ” or a SYMBOLIC name "/"+x arrives. It is dispatched only to the socket of exactly that
// namespace; a non-CONNECT packet for a namespace without a socket, or a CONNECT for one already joined, closes the
// connection and is dispatched to nobody; a CONNECT for an existing unjoined namespace attaches the client there and
// nowhere else.
//
//verif:unwind 12
//verif:rand concrete
func verifH_C05_route_server() {
	w := verifServerWorld("/", "/a", "/b")
	w.conn.parser = &verifFrameParser{log: &w.encoded}
	joinRoot, joinA := verifAnyBool(), verifAnyBool()
	var joined []string
	if joinRoot {
		joined = append(joined, "/")
	}
	if joinA {
		joined = append(joined, "/a")
	}
	socks := w.verifConnected(joined...)
	hits := map[string]int{}
	for n, s := range socks {
		name := n
		s.OnEvent("ev", func() { hits[name]++ })
		s.OnDisconnect(func(Reason) { hits["disc:"+name]++ })
	}
	tb := verifAnyByte()
	verifAssume(tb <= 6)
	typ := parser.PacketType(tb)
	targets := []string{"/", "/a", "/b", "/zz", ""}
	target := ""
	if k := verifChoose(0, 5); k < 5 {
		target = targets[k]
	} else {
		// a SYMBOLIC namespace "/"+x (x: 1..2 arbitrary comma-free bytes): look-alikes of the joined names such as "/a/",
		// "//", "/A", "/a " are points of the solver's domain
		x := verifString(verifChoose(1, 2))
		for i := 0; i < len(x); i++ {
			verifAssume(x[i] != ',')
		}
		target = "/" + x
	}
	eff := target
	if eff == "" {
		eff = "/"
	}
	frame := string([]byte{'0' + tb}) + target + ",ev"
	w.conn.onEIOPacket(verifMsg(frame))
	verifWaitQuiescent()

	_, has := socks[eff]
	isEvent := typ == parser.PacketTypeEvent || typ == parser.PacketTypeBinaryEvent
	for n := range socks {
		if n != eff {
			verifAssert(hits[n] == 0, "an event is never delivered to a socket of another namespace")
			if w.eio.closed == 0 {
				verifAssert(hits["disc:"+n] == 0, "a packet for one namespace does not disconnect another")
			}
		}
	}
	switch {
	case has && isEvent:
		verifAssert(hits[eff] == 1 && w.eio.closed == 0, "an event for a joined namespace reaches that namespace's handler once")
	case has && typ == parser.PacketTypeDisconnect:
		verifAssert(hits["disc:"+eff] == 1 && w.eio.closed == 0, "DISCONNECT for one namespace disconnects exactly that namespace")
		for n, s := range socks {
			if n != eff {
				verifAssert(s.Connected(), "disconnecting one namespace leaves the others connected")
			}
		}
	case has && (typ == parser.PacketTypeConnect || typ == parser.PacketTypeConnectError):
		verifAssert(w.eio.closed >= 1 && hits[eff] == 0, "CONNECT for a namespace already joined closes the connection instead of being dispatched")
	case !has && typ == parser.PacketTypeConnect && (eff == "/" || eff == "/a" || eff == "/b"):
		_, now := w.conn.sockets.getByNsp(eff)
		verifAssert(now && w.eio.closed == 0, "CONNECT for an existing namespace attaches the client to it")
		for _, other := range []string{"/", "/a", "/b"} {
			if other != eff {
				_, had := socks[other]
				_, got := w.conn.sockets.getByNsp(other)
				verifAssert(got == had, "CONNECT for one namespace attaches the client to no other")
			}
		}
	case !has && typ == parser.PacketTypeConnect:
		_, now := w.conn.sockets.getByNsp(eff)
		verifAssert(!now && w.countEncoded(parser.PacketTypeConnectError, eff) == 1, "CONNECT for a namespace that does not exist is refused with CONNECT_ERROR")
	case !has:
		verifAssert(w.eio.closed >= 1, "a packet addressed to a namespace the client has not joined closes the connection")
		for n := range socks {
			verifAssert(hits[n] == 0, "and is dispatched to nobody")
		}
	}
	verifReach("end")
}

// C05_separate_state: two namespaces created through the real constructor have their own adapter (rooms) and their own
// ack-id counter; a namespace-wide broadcast in one records deliveries only to that namespace's sockets.
//
//verif:unwind 12
//verif:rand concrete
func verifH_C05_separate_state() {
	w := verifServerWorld("/", "/a")
	socks := w.verifConnected("/", "/a")
	n0, na := w.nsp("/"), w.nsp("/a")
	verifAssert(n0.adapter != na.adapter, "each namespace has its own adapter")
	id0 := n0.nextAckID()
	ida := na.nextAckID()
	id0b := n0.nextAckID()
	verifAssert(id0 == 0 && ida == 0 && id0b == 1, "ack ids are drawn from per-namespace counters")
	socks["/"].Join("lobby")
	verifAssert(verifInRoom(n0, socks["/"].ID(), "lobby") && !verifInRoom(na, socks["/a"].ID(), "lobby"), "rooms are per namespace")
	_, known := na.adapter.SocketRooms(socks["/"].ID())
	verifAssert(!known, "a socket of one namespace is unknown to another namespace's adapter")
	w.conn.eioPacketQueue.get()
	before := len(w.encoded)
	na.Emit("news", 1)
	verifAssert(len(w.encoded) == before+1 && w.encoded[before].nsp == "/a", "a broadcast is encoded for its own namespace")
	got := w.conn.eioPacketQueue.get()
	verifAssert(len(got) == 1, "a namespace broadcast reaches exactly the one socket of that namespace on this connection")
	// disconnecting one namespace leaves the other attached
	socks["/a"].Disconnect(false)
	verifWaitQuiescent()
	_, still := w.conn.sockets.getByNsp("/")
	_, gone := w.conn.sockets.getByNsp("/a")
	verifAssert(still && !gone && socks["/"].Connected(), "disconnecting one namespace leaves the others connected")
	verifAssert(verifInRoom(n0, socks["/"].ID(), "lobby"), "and keeps their rooms")
	_ = eioparser.PacketTypeMessage
	verifReach("end")
}

// C05_attach_after_accept: a connection attached to "/" asks for "/admin", whose middleware takes its time: while it runs
// (it even joins a room) broadcasts are made in "/admin" - to the namespace and to that room. The connection gets nothing
// for "/admin" until the CONNECT has been accepted (and nothing at all if it is refused); traffic of "/" goes on.
//
//verif:unwind 12
//verif:rand concrete
func verifH_C05_attach_after_accept() {
	w := verifServerWorld("/", "/admin")
	socks := w.verifConnected("/")
	admin := w.nsp("/admin")
	w.conn.eioPacketQueue.get()
	accept := verifAnyBool()
	during := -1
	admin.Use(func(socket ServerSocket, handshake *Handshake) any {
		verifAssert(len(admin.Sockets()) == 0, "a socket is attached to a namespace only once its CONNECT was accepted")
		socket.Join("ops")
		admin.Emit("secret")
		admin.To("ops").Emit("secret")
		socks["/"].Emit("plain")
		during = len(w.conn.eioPacketQueue.get())
		if accept {
			return nil
		}
		return "no"
	})
	w.conn.connect(&parser.PacketHeader{Type: parser.PacketTypeConnect, Namespace: "/admin"}, verifNoDecode)
	verifWaitQuiescent()
	verifAssert(during == 1, "while the CONNECT is being decided the connection receives the traffic of its attached namespace and nothing of the requested one")
	after := w.conn.eioPacketQueue.get()
	verifAssert(len(after) == 1, "the decision is answered with exactly one packet")
	if accept {
		verifAssert(w.countEncoded(parser.PacketTypeConnect, "/admin") == 1 && len(admin.Sockets()) == 1, "an accepted CONNECT attaches the namespace")
	} else {
		verifAssert(w.countEncoded(parser.PacketTypeConnectError, "/admin") == 1 && len(admin.Sockets()) == 0, "a refused CONNECT attaches nothing")
		admin.Emit("secret")
		verifAssert(len(w.conn.eioPacketQueue.get()) == 0, "a refused namespace never sends anything on the connection")
	}
	verifReach("end")
}

// C05_route_client: the client-side router (real Manager.onEIOPacket -> onParserFinish -> clientSocket.onPacket): a client
// with sockets on a symbolic subset of {/, /a} receives an EVENT addressed to /, /a, /b, "" or a SYMBOLIC "/"+x (look-alike
// names included): only the socket of exactly that namespace sees it, once; an event for a namespace without a socket
// reaches nobody and disturbs nothing (the connection stays).
//
//verif:unwind 12
func verifH_C05_route_client() {
	var log []verifEncoded
	hasRoot, hasA := verifAnyBool(), verifAnyBool()
	var names []string
	if hasRoot {
		names = append(names, "/")
	}
	if hasA {
		names = append(names, "/a")
	}
	m, cl := verifClientWorld(&verifFrameParser{log: &log}, names...)
	hits := map[string]int{}
	for n, s := range cl {
		name := n
		s.OnEvent("ev", func() { hits[name]++ })
	}
	closes := 0
	m.OnClose(func(Reason, error) { closes++ })
	targets := []string{"/", "/a", "/b", ""}
	target := ""
	if k := verifChoose(0, 4); k < 4 {
		target = targets[k]
	} else {
		x := verifString(verifChoose(1, 2))
		for i := 0; i < len(x); i++ {
			verifAssume(x[i] != ',')
		}
		target = "/" + x
	}
	eff := target
	if eff == "" {
		eff = "/"
	}
	m.onEIOPacket(verifMsg("2" + target + ",ev"))
	verifWaitQuiescent()
	for n := range cl {
		want := 0
		if n == eff {
			want = 1
		}
		verifAssert(hits[n] == want, "an event reaches only the client socket of exactly its namespace, once")
	}
	verifAssert(closes == 0, "an event for a namespace without a socket does not disturb the connection")
	verifReach("end")
}

var errVerifJSONArgs = errors.New("verif: arguments cannot be decoded")

// C05_client_errors: two namespaces share one client connection; "/a" is connected, "/b" is in a symbolic state
// (connected, CONNECT sent but not yet answered, or disconnected). "/a" hits an error of its own (an event whose
// arguments cannot be decoded: reported through the Manager's error handlers, which every socket of the connection
// listens to). Nothing of "/b" is invoked because of it while "/b" is connected or waiting for its CONNECT answer - in
// particular not its connect_error handlers - and "/b"'s state is untouched.
//
//verif:unwind 12
func verifH_C05_client_errors() {
	var log []verifEncoded
	m, cl := verifClientWorld(verifRecParser{log: &log}, "/a", "/b")
	a, b := cl["/a"], cl["/b"]
	a.registerSubEvents()
	b.registerSubEvents()
	states := []clientSocketConnectionState{clientSocketConnStateConnected, clientSocketConnStateConnectPending, clientSocketConnStateDisconnected}
	bState := states[verifChoose(0, 2)]
	b.stateMu.Lock()
	b.state = bState
	b.stateMu.Unlock()
	aEv, bEv, bConnErr, bDisc, mgrErr := 0, 0, 0, 0, 0
	a.OnEvent("ev", func(string) { aEv++ })
	b.OnEvent("ev", func(string) { bEv++ })
	b.OnConnectError(func(any) { bConnErr++ })
	b.OnDisconnect(func(Reason) { bDisc++ })
	m.OnError(func(error) { mgrErr++ })
	// the frame is addressed to /a (the faulty decoder's header says "/": route by hand)
	a.onPacket(&parser.PacketHeader{Type: parser.PacketTypeEvent, Namespace: "/a"}, "ev", func(types ...reflect.Type) ([]reflect.Value, error) {
		return nil, errVerifJSONArgs
	})
	verifWaitQuiescent()
	verifAssert(aEv == 0 && mgrErr == 1, "the error of /a is reported once, its handler is not called")
	verifAssert(bEv == 0 && bDisc == 0, "no event or disconnect handler of /b runs because of /a's error")
	if bState != clientSocketConnStateDisconnected {
		verifAssert(bConnErr == 0, "a namespace that is connected or waiting for its CONNECT answer gets no connect_error because of a sibling's error")
	}
	b.stateMu.RLock()
	after := b.state
	b.stateMu.RUnlock()
	verifAssert(after == bState, "the sibling's connection state is untouched")
	verifReach("end")
}

// C05_leave_rejoin: packets of one namespace that follow each other at once are judged in the state their predecessors
// leave behind, not in the state at arrival: on a connection attached to "/" and "/a" one payload carries DISCONNECT /a
// immediately followed by CONNECT /a (leave and re-join), or CONNECT /b immediately followed by an EVENT for /b. The
// connection is not closed, "/" stays connected, and the namespace ends up attached again.
//
//verif:unwind 14
//verif:rand concrete
func verifH_C05_leave_rejoin() {
	w := verifServerWorld("/", "/a", "/b")
	w.conn.parser = &verifFrameParser{log: &w.encoded}
	socks := w.verifConnected("/", "/a")
	rootDisc := 0
	socks["/"].OnDisconnect(func(Reason) { rootDisc++ })
	rejoin := verifAnyBool()
	if rejoin {
		w.conn.onEIOPacket(verifMsg("1/a,"), verifMsg("0/a,"))
	} else {
		w.conn.onEIOPacket(verifMsg("0/b,"), verifMsg("2/b,ev"))
	}
	verifWaitQuiescent()
	verifAssert(w.eio.closed == 0, "leaving and re-joining a namespace (or using one right after joining it) does not close the connection")
	verifAssert(rootDisc == 0 && socks["/"].Connected(), "the other namespace stays connected")
	if rejoin {
		s2, ok := w.conn.sockets.getByNsp("/a")
		verifAssert(ok && s2 != socks["/a"] && s2.Connected() && !socks["/a"].Connected(), "the namespace is attached again, with a new socket; the old one is disconnected")
	} else {
		_, ok := w.conn.sockets.getByNsp("/b")
		verifAssert(ok, "the namespace is attached")
	}
	verifReach("end")
}
