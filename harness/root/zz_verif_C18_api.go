package sio

// C18_api: through the public On/Once/Off wrappers of every handler-carrying type: Off(f) removes f and only f;
// a Once handler is handed out for exactly one occurrence.
//
//verif:unwind 12
func verifH_C18_api_lifecycle() {
	var hitF, hitG int
	which := verifChoose(0, 4)
	mode := verifChoose(0, 2) // Off(f) / Off() without arguments: everything goes / Off(f, g)
	switch which {
	case 0:
		m := &Manager{openHandlers: newHandlerStore[*ManagerOpenFunc]()}
		f := func() { hitF++ }
		g := func() { hitG++ }
		m.OnOpen(f)
		m.OnOpen(g)
		switch mode {
		case 0:
			m.OffOpen(f)
		case 1:
			m.OffOpen()
		case 2:
			m.OffOpen(f, g)
		}
		for _, h := range m.openHandlers.getAll() {
			(*h)()
		}
	case 1:
		s := &Server{newNamespaceHandlers: newHandlerStore[*ServerNewNamespaceFunc]()}
		f := func(*Namespace) { hitF++ }
		g := func(*Namespace) { hitG++ }
		s.OnNewNamespace(f)
		s.OnNewNamespace(g)
		switch mode {
		case 0:
			s.OffNewNamespace(f)
		case 1:
			s.OffNewNamespace()
		case 2:
			s.OffNewNamespace(f, g)
		}
		for _, h := range s.newNamespaceHandlers.getAll() {
			(*h)(nil)
		}
	case 2:
		s := &serverSocket{errorHandlers: newHandlerStore[*ServerSocketErrorFunc]()}
		f := func(error) { hitF++ }
		g := func(error) { hitG++ }
		s.OnError(f)
		s.OnError(g)
		switch mode {
		case 0:
			s.OffError(f)
		case 1:
			s.OffError()
		case 2:
			s.OffError(f, g)
		}
		for _, h := range s.errorHandlers.getAll() {
			(*h)(nil)
		}
	case 3:
		s := &clientSocket{connectHandlers: newHandlerStore[*ClientSocketConnectFunc]()}
		f := func() { hitF++ }
		g := func() { hitG++ }
		s.OnConnect(f)
		s.OnConnect(g)
		switch mode {
		case 0:
			s.OffConnect(f)
		case 1:
			s.OffConnect()
		case 2:
			s.OffConnect(f, g)
		}
		for _, h := range s.connectHandlers.getAll() {
			(*h)()
		}
	case 4:
		n := &Namespace{connectionHandlers: newHandlerStore[*NamespaceConnectionFunc]()}
		f := func(ServerSocket) { hitF++ }
		g := func(ServerSocket) { hitG++ }
		n.OnConnection(f)
		n.OnConnection(g)
		switch mode {
		case 0:
			n.OffConnection(f)
		case 1:
			n.OffConnection()
		case 2:
			n.OffConnection(f, g)
		}
		for _, h := range n.connectionHandlers.getAll() {
			(*h)(nil)
		}
	}
	verifAssert(hitF == 0, "a handler removed with Off no longer runs")
	if mode == 0 {
		verifAssert(hitG == 1, "Off leaves the other handlers in place")
	} else {
		verifAssert(hitG == 0, "Off without arguments removes every handler of that event; Off(f, g) removes both")
	}
	verifReach("end")
}

// C18_api_once: OnceX handlers run for exactly one occurrence; OnX for each.
//
//verif:unwind 12
func verifH_C18_api_once() {
	var hitOn, hitOnce int
	m := &Manager{closeHandlers: newHandlerStore[*ManagerCloseFunc]()}
	m.OnClose(func(Reason, error) { hitOn++ })
	m.OnceClose(func(Reason, error) { hitOnce++ })
	for occ := 0; occ < 2; occ++ {
		m.closeHandlers.forEach(func(h *ManagerCloseFunc) { (*h)("", nil) }, false)
	}
	verifAssert(hitOn == 2 && hitOnce == 1, "On runs for each occurrence, Once for exactly one")
	verifReach("end")
}

// C18_api_event: OnEvent/OnceEvent/OffEvent on a socket.
//
//verif:unwind 12
func verifH_C18_api_event() {
	s := &serverSocket{eventHandlers: newEventHandlerStore()}
	s.OnEvent("a", verifHandlerA)
	s.OnEvent("a", verifHandlerB)
	s.OnceEvent("a", verifHandlerC)
	s.OnEvent("b", verifHandlerA)
	rm := verifChoose(0, 2)
	s.OffEvent("a", verifHandlerFns[rm])
	got := s.eventHandlers.getAll("a")
	for k := 0; k <= 2; k++ {
		want := 1
		if k == rm {
			want = 0
		}
		verifAssert(verifCountEH(got, k) == want, "OffEvent(name, f) removes f from that event and nothing else")
	}
	verifAssert(len(s.eventHandlers.getAll("b")) == 1, "another event keeps its handler")
	again := s.eventHandlers.getAll("a")
	verifAssert(verifCountEH(again, 2) == 0, "a Once event handler is handed out once")
	verifReach("end")
}

// C18_api_subevents: internal sub-event handlers of two sockets are closures of the SAME function literal; removing the
// one of a socket (by the pointer it was registered with) must leave the other socket's handler in place.
//
//verif:unwind 12
func verifH_C18_api_subevents() {
	st := newHandlerStore[*ManagerOpenFunc]()
	mk := func(tag *int) *ManagerOpenFunc {
		f := ManagerOpenFunc(func() { *tag++ })
		return &f
	}
	var a, b int
	pa, pb := mk(&a), mk(&b)
	st.onSubEvent(pa)
	st.onSubEvent(pb)
	st.offSubEvent(pa)
	for _, h := range st.getAll() {
		(*h)()
	}
	verifAssert(a == 0, "a removed sub-event handler no longer runs")
	verifAssert(b == 1, "the sub-event handler of another socket stays registered")
	verifReach("end")
}

// C18_once_race: two occurrences of an event race (plus optionally an Off of the Once handler) on a store holding one On
// and one Once handler, under all interleavings at synchronisation points: the Once handler is handed to at most one
// occurrence - exactly one if it was not removed - and the On handler to both. Lifecycle store and event store.
//
//verif:unwind 12
//verif:preempt 3
func verifH_C18_once_race() {
	st := newHandlerStore[*ManagerOpenFunc]()
	fOn := ManagerOpenFunc(func() {})
	fOnce := ManagerOpenFunc(func() {})
	st.on(&fOn)
	st.once(&fOnce)
	es := newEventHandlerStore()
	es.on("x", verifEH(0))
	es.once("x", verifEH(1))
	withOff := verifAnyBool()
	var r1, r2 []*ManagerOpenFunc
	var e1, e2 []*eventHandler
	verifThreads(true)
	verifGo(func() { r1 = st.getAll(); e1 = es.getAll("x") })
	verifGo(func() { r2 = st.getAll(); e2 = es.getAll("x") })
	if withOff {
		verifGo(func() { st.off(&fOnce) })
	}
	verifWaitQuiescent()
	count := func(rs []*ManagerOpenFunc, h *ManagerOpenFunc) int {
		n := 0
		for _, r := range rs {
			if r == h {
				n++
			}
		}
		return n
	}
	once := count(r1, &fOnce) + count(r2, &fOnce)
	verifAssert(once <= 1, "a Once handler runs for at most one occurrence even when occurrences race")
	if !withOff {
		verifAssert(once == 1, "a Once handler that was not removed runs for exactly one occurrence")
	}
	verifAssert(count(r1, &fOn) == 1 && count(r2, &fOn) == 1, "an On handler runs for every occurrence")
	verifAssert(verifCountEH(e1, 1)+verifCountEH(e2, 1) == 1, "a Once event handler runs for exactly one of two racing occurrences")
	verifAssert(verifCountEH(e1, 0) == 1 && verifCountEH(e2, 0) == 1, "an On event handler runs for every occurrence")
	verifReach("end")
}
