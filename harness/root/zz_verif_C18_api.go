package sio

// C18_api: through the public On/Once/Off wrappers of every handler-carrying type: Off(f) removes f and only f;
// a Once handler is handed out for exactly one occurrence.
//
//verif:unwind 12
func verifH_C18_api_lifecycle() {
	var hitF, hitG int
	which := verifChoose(0, 4)
	switch which {
	case 0:
		m := &Manager{openHandlers: newHandlerStore[*ManagerOpenFunc]()}
		f := func() { hitF++ }
		g := func() { hitG++ }
		m.OnOpen(f)
		m.OnOpen(g)
		m.OffOpen(f)
		for _, h := range m.openHandlers.getAll() {
			(*h)()
		}
	case 1:
		s := &Server{newNamespaceHandlers: newHandlerStore[*ServerNewNamespaceFunc]()}
		f := func(*Namespace) { hitF++ }
		g := func(*Namespace) { hitG++ }
		s.OnNewNamespace(f)
		s.OnNewNamespace(g)
		s.OffNewNamespace(f)
		for _, h := range s.newNamespaceHandlers.getAll() {
			(*h)(nil)
		}
	case 2:
		s := &serverSocket{errorHandlers: newHandlerStore[*ServerSocketErrorFunc]()}
		f := func(error) { hitF++ }
		g := func(error) { hitG++ }
		s.OnError(f)
		s.OnError(g)
		s.OffError(f)
		for _, h := range s.errorHandlers.getAll() {
			(*h)(nil)
		}
	case 3:
		s := &clientSocket{connectHandlers: newHandlerStore[*ClientSocketConnectFunc]()}
		f := func() { hitF++ }
		g := func() { hitG++ }
		s.OnConnect(f)
		s.OnConnect(g)
		s.OffConnect(f)
		for _, h := range s.connectHandlers.getAll() {
			(*h)()
		}
	case 4:
		n := &Namespace{connectionHandlers: newHandlerStore[*NamespaceConnectionFunc]()}
		f := func(ServerSocket) { hitF++ }
		g := func(ServerSocket) { hitG++ }
		n.OnConnection(f)
		n.OnConnection(g)
		n.OffConnection(f)
		for _, h := range n.connectionHandlers.getAll() {
			(*h)(nil)
		}
	}
	verifAssert(hitF == 0, "a handler removed with Off no longer runs")
	verifAssert(hitG == 1, "Off leaves the other handlers in place")
	verifReach("end")
}

// C18_api_once: OnceX handlers run for exactly one occurrence; OnX for each.
//
//verif:unwind 12
func verifH_C18_api_once() {
	var hitOn, hitOnce int
	m := &Manager{closeHandlers: newHandlerStore[*ManagerCloseFunc]()}
	m.OnClose(func(Reason, error) { hitOn++ })
	m.OnceClose(func(Reason, error) { hitOnce++ })
	for occ := 0; occ < 2; occ++ {
		m.closeHandlers.forEach(func(h *ManagerCloseFunc) { (*h)("", nil) }, false)
	}
	verifAssert(hitOn == 2 && hitOnce == 1, "On runs for each occurrence, Once for exactly one")
	verifReach("end")
}

// C18_api_event: OnEvent/OnceEvent/OffEvent on a socket.
//
//verif:unwind 12
func verifH_C18_api_event() {
	s := &serverSocket{eventHandlers: newEventHandlerStore()}
	s.OnEvent("a", verifHandlerA)
	s.OnEvent("a", verifHandlerB)
	s.OnceEvent("a", verifHandlerC)
	s.OnEvent("b", verifHandlerA)
	rm := verifChoose(0, 2)
	s.OffEvent("a", verifHandlerFns[rm])
	got := s.eventHandlers.getAll("a")
	for k := 0; k <= 2; k++ {
		want := 1
		if k == rm {
			want = 0
		}
		verifAssert(verifCountEH(got, k) == want, "OffEvent(name, f) removes f from that event and nothing else")
	}
	verifAssert(len(s.eventHandlers.getAll("b")) == 1, "another event keeps its handler")
	again := s.eventHandlers.getAll("a")
	verifAssert(verifCountEH(again, 2) == 0, "a Once event handler is handed out once")
	verifReach("end")
}

// C18_api_subevents: internal sub-event handlers of two sockets are closures of the SAME function literal; removing the
// one of a socket (by the pointer it was registered with) must leave the other socket's handler in place.
//
//verif:unwind 12
func verifH_C18_api_subevents() {
	st := newHandlerStore[*ManagerOpenFunc]()
	mk := func(tag *int) *ManagerOpenFunc {
		f := ManagerOpenFunc(func() { *tag++ })
		return &f
	}
	var a, b int
	pa, pb := mk(&a), mk(&b)
	st.onSubEvent(pa)
	st.onSubEvent(pb)
	st.offSubEvent(pa)
	for _, h := range st.getAll() {
		(*h)()
	}
	verifAssert(a == 0, "a removed sub-event handler no longer runs")
	verifAssert(b == 1, "the sub-event handler of another socket stays registered")
	verifReach("end")
}
