package sio

import (
	"github.com/karagenc/socket.io-go/parser"
	"reflect"
	"time"

	eio "github.com/karagenc/socket.io-go/engine.io"
)

// verifEIOClient is a recording Engine.IO client socket handed out by the (cut) dial.
type verifEIOClient struct{ verifEIOSock }

func (e *verifEIOClient) Upgrades() []string { return nil }

var _ eio.ClientSocket = (*verifEIOClient)(nil)

// C15_reconnect: the reconnection state machine (real Manager.reconnect / connect / onReconnect with the network dial
// cut: it fails for the first j attempts, then succeeds) for every attempt limit N in 0..4 (0 = unlimited) and every
// j in 0..5: the client dials exactly min(j+1, N) times (j+1 when unlimited); when all N attempts fail it announces
// reconnect_failed exactly once, ends disconnected with the back-off reset and never announces reconnect; when attempt
// j+1 succeeds it announces reconnect exactly once with that attempt number, is connected, and announces no failure.
//
//verif:unwind 16
//verif:rand concrete
func verifH_C15_reconnect() {
	N := verifChoose(0, 4)
	j := verifChoose(0, 5)
	m, _ := verifClientWorld(&verifPipeParser{}, "/")
	m.url = "http://127.0.0.1:1/socket.io"
	m.state = clientConnStateDisconnected
	m.noReconnection = false
	m.skipReconnect = false
	m.reconnectionAttempts = uint32(N)
	m.backoff = newBackoff(time.Millisecond, 2*time.Millisecond, 0)
	var attemptsSeen []uint32
	failed, reconnected := 0, 0
	var reconnectedAt uint32
	errs := 0
	m.OnReconnectAttempt(func(a uint32) { attemptsSeen = append(attemptsSeen, a) })
	m.OnReconnectFailed(func() { failed++ })
	m.OnReconnect(func(a uint32) { reconnected++; reconnectedAt = a })
	m.OnReconnectError(func(error) { errs++ })
	if verifIsNative() && (N == 0 || j < N) {
		return // a successful dial needs a real server: only the all-attempts-fail patterns are replayable natively
	}
	verifDialPlan(j, eio.ClientSocket(&verifEIOClient{}))
	m.reconnect(false)
	verifWaitQuiescent()
	if verifIsNative() {
		time.Sleep(300 * time.Millisecond)
	}
	if N > 0 && j >= N {
		if !verifIsNative() {
			verifAssert(verifDialCalls() == N, "the client gives up after exactly ReconnectionAttempts failed attempts")
		}
		verifAssert(len(attemptsSeen) == N && errs == N, "every attempt is announced and every failure reported")
		verifAssert(failed == 1, "reconnect_failed is announced exactly once")
		verifAssert(reconnected == 0, "no reconnect is announced when every attempt failed")
		verifAssert(!m.connected() && m.backoff.attempts() == 0, "the client ends disconnected with its back-off reset")
	} else {
		verifAssert(verifDialCalls() == j+1, "the client keeps trying until the server is reachable again")
		verifAssert(reconnected == 1 && reconnectedAt == uint32(j+1), "reconnect is announced exactly once, with the number of the successful attempt")
		verifAssert(failed == 0 && errs == j, "no failure is announced when an attempt succeeds")
		verifAssert(m.connected() && m.backoff.attempts() == 0, "the client is connected and its back-off reset")
	}
	for i, a := range attemptsSeen {
		verifAssert(a == uint32(i+1), "attempts are numbered 1, 2, 3, ...")
	}
	verifReach("end")
}

// C15_offline: events emitted while the socket is disconnected. e emits with a symbolic volatile flag and 0..1 binary
// attachment each (so 1..2 frames); then the CONNECT reply arrives (emitBuffered runs, twice). The connection's send
// queue then holds exactly the frames of the NON-volatile emits, in emit order, each once; volatile ones are dropped;
// the second flush adds nothing.
//
//verif:unwind 16
//verif:rand concrete
func verifH_C15_offline() {
	E := 3
	if verifThorough() {
		E = 4
	}
	m, cl := verifClientWorld(&verifPipeParser{}, "/")
	c := cl["/"]
	c.state = clientSocketConnStateDisconnected
	e := verifChoose(1, E)
	var want [][]byte
	for i := 0; i < e; i++ {
		volatile := verifAnyBool()
		name := string([]byte{'e', byte('0' + i)})
		var args []any
		withAtt := verifAnyBool()
		if withAtt {
			args = append(args, []byte{byte(i)})
		}
		c.emit(name, 0, volatile, false, args...)
		if !volatile {
			frames, _ := (&verifPipeParser{}).Encode(&verifHeaderEvent, &[]any{name})
			_ = frames
			want = append(want, []byte(name))
			if withAtt {
				want = append(want, []byte{byte(i)})
			}
		}
	}
	verifAssert(len(m.eioPacketQueue.get()) == 0, "nothing is sent while the socket is disconnected")
	c.stateMu.Lock()
	c.state = clientSocketConnStateConnected
	c.stateMu.Unlock()
	c.emitBuffered()
	got := m.eioPacketQueue.get()
	verifAssert(len(got) == len(want), "exactly the frames of the non-volatile offline emits are sent after (re)connection")
	if len(got) == len(want) {
		for i := range want {
			verifAssert(verifFrameIs(got[i], want[i]), "offline emits are delivered once each, in the order they were emitted")
		}
	}
	c.emitBuffered()
	verifAssert(len(m.eioPacketQueue.get()) == 0 && len(c.sendBuffer) == 0, "a second flush sends nothing again")
	verifReach("end")
}

// C15_stop_restart: the user stops the client (Manager.Close) in the middle of a reconnection cycle - after a of the
// back-off delays have been computed (a = 0..3) - and later opens it again while the server is still unreachable. The
// stop resets the back-off, so the new open starts a full reconnection cycle of its own: every one of its N attempts
// is made and announced (numbered from 1 again), and reconnect_failed is announced exactly once at the end.
//
//verif:unwind 16
//verif:rand concrete
func verifH_C15_stop_restart() {
	N := verifChoose(1, 3)
	a := verifChoose(0, 3)
	m, _ := verifClientWorld(&verifPipeParser{}, "/")
	m.url = "http://127.0.0.1:1/socket.io"
	m.state = clientConnStateDisconnected
	m.noReconnection = false
	m.skipReconnect = false
	m.reconnectionAttempts = uint32(N)
	m.backoff = newBackoff(time.Millisecond, 2*time.Millisecond, 0)
	for i := 0; i < a; i++ {
		m.backoff.duration() // the cycle that is interrupted has got this far
	}
	var attemptsSeen []uint32
	failed := 0
	m.OnReconnectAttempt(func(x uint32) { attemptsSeen = append(attemptsSeen, x) })
	m.OnReconnectFailed(func() { failed++ })
	m.Close()
	verifWaitQuiescent()
	verifAssert(m.backoff.attempts() == 0, "stopping the client resets its back-off")
	verifAssert(len(attemptsSeen) == 0 && failed == 0, "a stopped client does not reconnect by itself")
	// the user opens it again; the server is still down
	m.skipReconnectMu.Lock()
	m.skipReconnect = false
	m.skipReconnectMu.Unlock()
	verifDialPlan(100, eio.ClientSocket(&verifEIOClient{}))
	m.open()
	verifWaitQuiescent()
	if verifIsNative() {
		time.Sleep(300 * time.Millisecond)
	}
	verifAssert(len(attemptsSeen) == N, "opening again starts a full reconnection cycle: every attempt is made and announced")
	for i, x := range attemptsSeen {
		verifAssert(x == uint32(i+1), "attempts are numbered 1, 2, 3, ...")
	}
	verifAssert(failed == 1, "reconnect_failed is announced exactly once when the cycle is exhausted")
	verifReach("end")
}

// C15_offline_ack: among the events emitted while disconnected one carries an ack function with a timeout (public
// Timeout(d).Emit), and the outage lasts longer than that timeout: its callback gets ErrAckTimeout once and the event is
// withdrawn - but every OTHER non-volatile offline emit is still delivered exactly once, in emit order, after the
// reconnection (whatever ack id the timed-out emit happened to get: the first ack id of a socket is 0).
//
//verif:unwind 16
//verif:rand concrete
//verif:sleep gate
func verifH_C15_offline_ack() {
	E := 3
	if verifThorough() {
		E = 4
	}
	m, cl := verifClientWorld(&verifPipeParser{}, "/")
	c := cl["/"]
	c.state = clientSocketConnStateDisconnected
	e := verifChoose(1, E)
	t := verifChoose(0, e-1) // the emit that carries the ack with timeout
	calls := 0
	var gotErr error
	var want [][]byte
	for i := 0; i < e; i++ {
		name := string([]byte{'e', byte('0' + i)})
		if i == t {
			c.Timeout(30*time.Millisecond).Emit(name, func(err error, arg string) {
				calls++
				gotErr = err
			})
			continue
		}
		volatile := verifAnyBool()
		c.emit(name, 0, volatile, false)
		if !volatile {
			want = append(want, []byte(name))
		}
	}
	verifWake(1) // the outage outlasts the ack timeout
	verifWaitQuiescent()
	if verifIsNative() {
		time.Sleep(60 * time.Millisecond)
	}
	verifAssert(calls == 1 && gotErr == ErrAckTimeout, "the ack of an event that could not be sent in time gets ErrAckTimeout, once")
	c.stateMu.Lock()
	c.state = clientSocketConnStateConnected
	c.stateMu.Unlock()
	c.emitBuffered()
	got := m.eioPacketQueue.get()
	verifAssert(len(got) == len(want), "every other non-volatile offline emit is still sent after (re)connection, the timed-out one is not")
	if len(got) == len(want) {
		for i := range want {
			verifAssert(verifFrameIs(got[i], want[i]), "offline emits are delivered once each, in the order they were emitted")
		}
	}
	verifReach("end")
}

// C15_offline_onconnect: events emitted while disconnected are still buffered when the CONNECT answer arrives (the real
// clientSocket.onConnect, first connection or after an outage), and a connect handler of the application emits a
// further event at once. On the wire the buffered events go first, in the order they were emitted, each once; the
// event emitted from the connect handler follows them.
//
//verif:unwind 16
//verif:rand concrete
func verifH_C15_offline_onconnect() { verifOnConnectOrderBody() }

// C15_retry_queue: the retry queue (ClientSocketConfig.Retries > 0), which none of the other harnesses configures: "a" was
// sent but not yet acknowledged when the connection dropped, "b" is emitted during the outage, then the client
// reconnects (real onConnect) before the ack timeout of the lost transmission runs out. "a" is transmitted again right
// after the reconnection - it does not wait for the stale timeout - and once it is acknowledged "b" follows: every
// event emitted before and during the outage is delivered, in order.
//
//verif:unwind 16
//verif:rand concrete
//verif:sleep gate
func verifH_C15_retry_queue() {
	var log []verifEncoded
	_, cl := verifClientWorld(verifRecParser{log: &log}, "/")
	s := cl["/"]
	s.config.Retries = 2
	s.config.AckTimeout = time.Hour
	count := func(name string) (n int, lastID *uint64) {
		for _, e := range log {
			if args, ok := e.v.(*[]any); ok && e.typ == parser.PacketTypeEvent && len(*args) > 0 && (*args)[0] == name {
				n++
				lastID = e.id
			}
		}
		return
	}
	s.Emit("a")
	verifWaitQuiescent()
	n, _ := count("a")
	verifAssert(n == 1, "the head of the retry queue is sent at once")
	s.onClose(ReasonTransportClose) // the transmission is lost with the connection: no acknowledgement will come
	s.Emit("b")
	verifWaitQuiescent()
	nb, _ := count("b")
	verifAssert(nb == 0, "an event emitted during the outage waits behind the unacknowledged head")
	info := &sidInfo{SID: "sid2"}
	s.onConnect(&parser.PacketHeader{Type: parser.PacketTypeConnect, Namespace: "/"}, func(types ...reflect.Type) ([]reflect.Value, error) {
		return []reflect.Value{reflect.ValueOf(info)}, nil
	})
	verifWaitQuiescent()
	n, id := count("a")
	verifAssert(n == 2, "after the reconnection the unacknowledged event is transmitted again at once, without waiting for the stale ack timeout")
	if n != 2 || id == nil {
		return
	}
	rid := *id
	s.onAck(&parser.PacketHeader{Type: parser.PacketTypeAck, Namespace: "/", ID: &rid}, verifReplyDecode(""))
	verifWaitQuiescent()
	nb, _ = count("b")
	verifAssert(nb == 1, "once it is acknowledged the event emitted during the outage follows")
	verifReach("end")
}
