package sio

import (
	"encoding/json"
	"errors"
	"reflect"
	stdsync "sync"
	"time"

	mapset "github.com/deckarep/golang-set/v2"
	"github.com/karagenc/socket.io-go/adapter"
	eioparser "github.com/karagenc/socket.io-go/engine.io/parser"
	"github.com/karagenc/socket.io-go/parser"
)

// ---- recording stand-ins for the layers below Socket.IO (transports are outside every claim) ----

// verifEIOSock is a recording Engine.IO socket.
type verifEIOSock struct {
	mu     stdsync.Mutex // the real Engine.IO socket takes its transport lock in Send and a Once in Close: scheduling points
	id     string
	sent   []*eioparser.Packet
	closed int
}

func (e *verifEIOSock) ID() string                  { return e.id }
func (e *verifEIOSock) PingInterval() time.Duration { return time.Second }
func (e *verifEIOSock) PingTimeout() time.Duration  { return time.Second }
func (e *verifEIOSock) TransportName() string       { return "polling" }
func (e *verifEIOSock) Send(p ...*eioparser.Packet) {
	e.mu.Lock()
	e.sent = append(e.sent, p...)
	e.mu.Unlock()
}
func (e *verifEIOSock) Close() {
	e.mu.Lock()
	e.closed++
	e.mu.Unlock()
}

// verifRecParser is an encoder stand-in that records what was encoded: one frame "<type digit><namespace>" per packet.
// Decoding (Add) is not used through it: harnesses call the dispatch functions with headers directly.
type verifEncoded struct {
	typ parser.PacketType
	nsp string
	v   any
	id  *uint64
}

type verifRecParser struct{ log *[]verifEncoded }

func (p verifRecParser) Encode(h *parser.PacketHeader, v any) ([][]byte, error) {
	var id *uint64
	if h.ID != nil {
		x := *h.ID
		id = &x
	}
	*p.log = append(*p.log, verifEncoded{h.Type, h.Namespace, v, id})
	return [][]byte{append([]byte{'0' + byte(h.Type)}, h.Namespace...)}, nil
}
func (p verifRecParser) Add(data []byte, finish parser.Finish) error { return nil }
func (p verifRecParser) Reset()                                      {}

// verifServerWorld builds a Server with the given namespaces and one connection, by struct literals (no goroutines,
// no network): the real stores, namespaces, in-memory adapters and packet queue, recording parser and Engine.IO socket.
type verifSrv struct {
	server  *Server
	conn    *serverConn
	eio     *verifEIOSock
	encoded []verifEncoded
}

func verifServerWorld(nsps ...string) *verifSrv {
	w := &verifSrv{}
	return verifServerWorldWith(w, func() parser.Parser { return verifRecParser{log: &w.encoded} }, adapter.NewInMemoryAdapterCreator(), nsps...)
}

// verifServerWorldWith: the same with a given codec and adapter (session-aware adapter for connection state recovery).
func verifServerWorldWith(w *verifSrv, creator parser.Creator, ac adapter.Creator, nsps ...string) *verifSrv {
	w.server = &Server{
		parserCreator:         creator,
		adapterCreator:        ac,
		namespaces:            newNspStore(),
		debug:                 newNoopDebugger(),
		newNamespaceHandlers:  newHandlerStore[*ServerNewNamespaceFunc](),
		anyConnectionHandlers: newHandlerStore[*ServerAnyConnectionFunc](),
	}
	for _, n := range nsps {
		w.server.namespaces.set(newNamespace(n, w.server, w.server.adapterCreator, creator))
	}
	w.eio = &verifEIOSock{id: "eio1"}
	w.conn = &serverConn{
		eio:            w.eio,
		eioPacketQueue: newPacketQueue(),
		server:         w.server,
		sockets:        newServerSocketStore(),
		nsps:           newNspStore(),
		parser:         creator(),
		debug:          newNoopDebugger(),
	}
	return w
}

func (w *verifSrv) nsp(name string) *Namespace {
	n, _ := w.server.namespaces.get(name)
	return n
}

// verifNoDecode is the decode closure of a CONNECT packet without auth data: like the real decoder it hands back a
// pointer to a json.RawMessage holding the empty object.
func verifNoDecode(types ...reflect.Type) ([]reflect.Value, error) {
	raw := json.RawMessage("{}")
	return []reflect.Value{reflect.ValueOf(&raw)}, nil
}

func (w *verifSrv) countEncoded(typ parser.PacketType, nsp string) int {
	n := 0
	for _, e := range w.encoded {
		if e.typ == typ && e.nsp == nsp {
			n++
		}
	}
	return n
}

func verifInRoom(n *Namespace, sid SocketID, room Room) bool {
	rooms, ok := n.adapter.SocketRooms(sid)
	return ok && rooms.Contains(room)
}

func verifNoRooms() mapset.Set[Room] { return mapset.NewSet[Room]() }

// verifFrameParser is a decoder stand-in for dispatch harnesses: a frame is "<type digit><namespace>,<event>[#<k>]"
// where k attachment frames follow; Add calls finish synchronously when the packet is complete (what the real parser
// does). Encoding is recorded like verifRecParser.
type verifFrameParser struct {
	log     *[]verifEncoded
	pending *parser.PacketHeader
	event   string
	left    int
}

func (p *verifFrameParser) Encode(h *parser.PacketHeader, v any) ([][]byte, error) {
	*p.log = append(*p.log, verifEncoded{typ: h.Type, nsp: h.Namespace, v: v})
	return [][]byte{append([]byte{'0' + byte(h.Type)}, h.Namespace...)}, nil
}

func (p *verifFrameParser) Add(data []byte, finish parser.Finish) error {
	if p.pending != nil {
		p.left--
		if p.left == 0 {
			h, ev := p.pending, p.event
			p.pending = nil
			finish(h, ev, verifArgDecode)
		}
		return nil
	}
	if len(data) < 1 {
		return errVerifFrame
	}
	h := &parser.PacketHeader{Type: parser.PacketType(data[0] - '0')}
	i := 1
	for i < len(data) && data[i] != ',' {
		i++
	}
	h.Namespace = string(data[1:i])
	ev := ""
	k := 0
	if i < len(data) {
		rest := data[i+1:]
		j := 0
		for j < len(rest) && rest[j] != '#' {
			j++
		}
		ev = string(rest[:j])
		if j+1 < len(rest) {
			k = int(rest[j+1] - '0')
		}
	}
	if k > 0 {
		p.pending, p.event, p.left = h, ev, k
		return nil
	}
	finish(h, ev, verifArgDecode)
	return nil
}
func (p *verifFrameParser) Reset() { p.pending = nil }

var errVerifFrame = errors.New("verif: bad frame")

func verifMsg(s string) *eioparser.Packet {
	return &eioparser.Packet{Type: eioparser.PacketTypeMessage, Data: []byte(s)}
}

// verifConnected connects the world's connection to the given namespaces (sequentially, through the real connect).
func (w *verifSrv) verifConnected(nsps ...string) map[string]*serverSocket {
	out := map[string]*serverSocket{}
	for _, n := range nsps {
		w.conn.connect(&parser.PacketHeader{Type: parser.PacketTypeConnect, Namespace: n}, verifNoDecode)
		s, _ := w.conn.sockets.getByNsp(n)
		out[n] = s
	}
	verifWaitQuiescent()
	return out
}

// verifArgDecode builds the values the real decoder would hand to onEvent: a pointer to a fresh value per requested type.
func verifArgDecode(types ...reflect.Type) ([]reflect.Value, error) {
	out := make([]reflect.Value, len(types))
	for i, t := range types {
		out[i] = reflect.New(t)
	}
	return out, nil
}

func verifHandlerA(string) {}
func verifHandlerB(int)    {}
func verifHandlerC()       {}
func verifHandlerD(bool)   {}

var verifHandlerFns = []any{verifHandlerA, verifHandlerB, verifHandlerC, verifHandlerD}

func verifEH(k int) *eventHandler {
	h, err := newEventHandler(verifHandlerFns[k])
	if err != nil {
		panic(err)
	}
	return h
}

func verifCountEH(xs []*eventHandler, k int) int {
	n := 0
	p := reflect.ValueOf(verifHandlerFns[k]).Pointer()
	for _, x := range xs {
		if x.rv.Pointer() == p {
			n++
		}
	}
	return n
}

// verifReplyDecode is the `decode` closure of an ACK packet carrying one string argument.
func verifReplyDecode(val string) parser.Decode {
	return func(types ...reflect.Type) ([]reflect.Value, error) {
		out := make([]reflect.Value, len(types))
		for i := range types {
			v := val
			out[i] = reflect.ValueOf(&v)
		}
		return out, nil
	}
}

func verifServerSock() *serverSocket {
	return &serverSocket{
		nsp:           &Namespace{},
		acks:          make(map[uint64]*ackHandler),
		debug:         newNoopDebugger(),
		errorHandlers: newHandlerStore[*ServerSocketErrorFunc](),
	}
}

func verifClientSock() *clientSocket {
	return &clientSocket{
		state:  clientSocketConnStateDisconnected,
		config: &ClientSocketConfig{},
		acks:   make(map[uint64]*ackHandler),
		debug:  newNoopDebugger(),
	}
}

// ---- frame-preserving codec stand-in for pipeline harnesses (JSON / reflect are C09's subject, outside C01's kernel) ----

// verifPipeParser encodes an event as a header frame "2<nsp>,<event>#<k>" (or "5..." when k > 0) followed by the k
// []byte arguments as attachment frames, and reassembles it; the decode closure hands the attachments back, in order,
// for the handler's []byte parameters.
type verifPipeParser struct {
	pending *parser.PacketHeader
	event   string
	left    int
	att     [][]byte
}

func (p *verifPipeParser) Encode(h *parser.PacketHeader, v any) ([][]byte, error) {
	args, _ := v.(*[]any)
	event := ""
	var att [][]byte
	if args != nil {
		for i, a := range *args {
			if i == 0 {
				event, _ = a.(string)
				continue
			}
			if b, ok := a.([]byte); ok {
				att = append(att, b)
			}
		}
	}
	typ := h.Type
	if len(att) > 0 && typ == parser.PacketTypeEvent {
		typ = parser.PacketTypeBinaryEvent
	}
	head := append([]byte{'0' + byte(typ)}, h.Namespace...)
	head = append(head, ',')
	head = append(head, event...)
	head = append(head, '#', byte('0'+len(att)))
	return append([][]byte{head}, att...), nil
}

func (p *verifPipeParser) Add(data []byte, finish parser.Finish) error {
	done := func() {
		h, ev, att := p.pending, p.event, p.att
		p.pending, p.att = nil, nil
		finish(h, ev, func(types ...reflect.Type) ([]reflect.Value, error) {
			out := make([]reflect.Value, len(types))
			for i := range types {
				var b []byte
				if i < len(att) {
					b = att[i]
				}
				out[i] = reflect.ValueOf(&b)
			}
			return out, nil
		})
	}
	if p.pending != nil {
		p.att = append(p.att, data)
		p.left--
		if p.left == 0 {
			done()
		}
		return nil
	}
	if len(data) < 4 {
		return errVerifFrame
	}
	h := &parser.PacketHeader{Type: parser.PacketType(data[0] - '0')}
	i := 1
	for i < len(data) && data[i] != ',' {
		i++
	}
	if i >= len(data) {
		return errVerifFrame
	}
	h.Namespace = string(data[1:i])
	rest := data[i+1:]
	j := 0
	for j < len(rest) && rest[j] != '#' {
		j++
	}
	if j+1 >= len(rest) {
		return errVerifFrame
	}
	p.pending, p.event, p.left = h, string(rest[:j]), int(rest[j+1]-'0')
	if p.left == 0 {
		done()
	}
	return nil
}
func (p *verifPipeParser) Reset() { p.pending, p.att = nil, nil }

// verifClientWorld builds a Manager with one connected client socket per namespace, by struct literals.
func verifClientWorld(p parser.Parser, nsps ...string) (*Manager, map[string]*clientSocket) {
	m := &Manager{
		eioPacketQueue: newPacketQueue(),
		parser:         p,
		sockets:        newClientSocketStore(),
		debug:          newNoopDebugger(),
		state:          clientConnStateConnected,
		noReconnection: true,
		skipReconnect:  true,
		backoff:        newBackoff(DefaultReconnectionDelay, DefaultReconnectionDelayMax, 0),

		openHandlers:             newHandlerStore[*ManagerOpenFunc](),
		pingHandlers:             newHandlerStore[*ManagerPingFunc](),
		errorHandlers:            newHandlerStore[*ManagerErrorFunc](),
		closeHandlers:            newHandlerStore[*ManagerCloseFunc](),
		reconnectHandlers:        newHandlerStore[*ManagerReconnectFunc](),
		reconnectAttemptHandlers: newHandlerStore[*ManagerReconnectAttemptFunc](),
		reconnectErrorHandlers:   newHandlerStore[*ManagerReconnectErrorFunc](),
		reconnectFailedHandlers:  newHandlerStore[*ManagerReconnectFailedFunc](),
	}
	out := map[string]*clientSocket{}
	for _, n := range nsps {
		// the real constructor (handler stores, retry queue, send hook); then marked connected
		s := m.socket(n, nil)
		s.stateMu.Lock()
		s.state = clientSocketConnStateConnected
		s.stateMu.Unlock()
		out[n] = s
	}
	return m, out
}

var verifHeaderEvent = parser.PacketHeader{Type: parser.PacketTypeEvent, Namespace: "/"}
