package sio

import (
	"reflect"

	"github.com/karagenc/socket.io-go/parser"
	jsonparser "github.com/karagenc/socket.io-go/parser/json"
	"github.com/karagenc/socket.io-go/parser/json/serializer/stdjson"
)

// verifST_pipeparser validates the frame-preserving codec stand-in of the C01 / C02 / C15 harnesses against the real JSON
// parser (native only, run by `sv selftest C01` as part of `sv check C01`): for events with 0..2 binary arguments on two
// namespaces, both produce the same NUMBER of frames, the same type digit and namespace prefix in the first frame, the
// same attachment frames in the same order, and both reassemble their own frames into the same event name and the
// same attachments. (The stand-in treats []byte arguments the way the real parser treats sio.Binary.)
func verifST_pipeparser() {
	real := jsonparser.NewCreator(0, stdjson.New())
	atts := [][]byte{{}, {0x1e}, {'b', '4'}, {0, 255, 7}}
	for _, nsp := range []string{"/", "/x"} {
		for k := 0; k <= 2; k++ {
			for a := range atts {
				argsReal := []any{"ev"}
				argsPipe := []any{"ev"}
				var want [][]byte
				for i := 0; i < k; i++ {
					b := atts[(a+i)%len(atts)]
					argsReal = append(argsReal, Binary(b))
					argsPipe = append(argsPipe, []byte(b))
					want = append(want, b)
				}
				hr := &parser.PacketHeader{Type: parser.PacketTypeEvent, Namespace: nsp}
				hp := &parser.PacketHeader{Type: parser.PacketTypeEvent, Namespace: nsp}
				fr, err1 := real().Encode(hr, &argsReal)
				fp, err2 := (&verifPipeParser{}).Encode(hp, &argsPipe)
				verifAssert(err1 == nil && err2 == nil, "both encoders accept the event")
				verifAssert(len(fr) == len(fp) && len(fr) == 1+k, "same number of frames: one header frame plus one per binary argument")
				verifAssert(fr[0][0] == fp[0][0], "same packet type digit")
				for i := 0; i < k; i++ {
					verifAssert(string(fr[1+i]) == string(want[i]) && string(fp[1+i]) == string(want[i]), "same attachment frames in the same order")
				}
				// each decoder reassembles its own frames
				for which, frames := range [][][]byte{fr, fp} {
					var p parser.Parser = real()
					if which == 1 {
						p = &verifPipeParser{}
					}
					finished := 0
					for _, f := range frames {
						err := p.Add(f, func(h *parser.PacketHeader, ev string, decode parser.Decode) {
							finished++
							verifAssert(ev == "ev" && h.Namespace == nsp, "event name and namespace reassembled")
							types := make([]reflect.Type, k)
							for i := range types {
								if which == 0 {
									types[i] = reflect.TypeOf(Binary(nil))
								} else {
									types[i] = reflect.TypeOf([]byte(nil))
								}
							}
							vals, err := decode(types...)
							verifAssert(err == nil && len(vals) == k, "arguments decode")
							for i := range vals {
								v := vals[i]
								if v.Kind() == reflect.Ptr {
									v = v.Elem()
								}
								verifAssert(string(v.Bytes()) == string(want[i]), "attachment i is handed back in place i")
							}
						})
						verifAssert(err == nil, "frame accepted")
					}
					verifAssert(finished == 1, "the packet completes exactly once, with its last frame")
				}
			}
		}
	}
}
