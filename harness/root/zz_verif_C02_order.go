package sio

import (
	eioparser "github.com/karagenc/socket.io-go/engine.io/parser"
)

// C02_queue: P producers each hand one packet of 1+a frames to the connection's send path (the real
// serverConn.sendBuffers -> packetQueue.add) while one consumer drains the queue with the real poll, under all
// interleavings at synchronisation points. On the wire (what the consumer sees) the frames of one packet are contiguous
// and in frame order, nothing is lost or duplicated, and the two packets one producer sends one after the other keep
// their order.
//
//verif:unwind 12
//verif:preempt 2
//verif:rand concrete
func verifH_C02_queue() {
	w := verifServerWorld("/")
	P := 2
	a := verifChoose(0, 2) // attachments per packet
	var wire []*eioparser.Packet
	verifThreads(true)
	verifGo(func() {
		for i := 0; i < 4; i++ {
			r, ok, closed := w.conn.eioPacketQueue.poll()
			if closed {
				return
			}
			if ok {
				wire = append(wire, r...)
			}
			if len(wire) >= (P+1)*(1+a) {
				return
			}
		}
	})
	mk := func(tag byte) [][]byte {
		b := make([][]byte, 1+a)
		for i := range b {
			b[i] = []byte{tag, byte('0' + i)}
		}
		return b
	}
	// producer 0 sends two packets in a row ('A' then 'B'), producer 1 sends one ('C')
	verifGo(func() {
		w.conn.sendBuffers(mk('A')...)
		w.conn.sendBuffers(mk('B')...)
	})
	verifGo(func() { w.conn.sendBuffers(mk('C')...) })
	verifWaitQuiescent()
	// drain what is still queued (the consumer may have stopped polling)
	rest := w.conn.eioPacketQueue.get()
	wire = append(wire, rest...)
	verifAssert(len(wire) == (P+1)*(1+a), "every frame is on the wire exactly once")
	posA, posB := -1, -1
	for i := 0; i+a < len(wire); i += 1 + a {
		tag := wire[i].Data[0]
		for k := 0; k <= a; k++ {
			f := wire[i+k]
			verifAssert(f.Data[0] == tag && f.Data[1] == byte('0'+k), "the frames of one packet travel contiguously and in order, never mixed with another packet's frames")
			verifAssert(f.IsBinary == (k > 0), "attachments are binary frames, the header frame is text")
		}
		if tag == 'A' {
			posA = i
		}
		if tag == 'B' {
			posB = i
		}
	}
	verifAssert(posA >= 0 && posB > posA, "packets one goroutine sends one after the other keep their order on the wire")
	verifReach("end")
}

// C02_dispatch_server: two EVENT packets for one namespace arrive on a connection in one Engine.IO payload, the first
// optionally a binary packet with one attachment (real serverConn.onEIOPacket -> onParserFinish -> serverSocket.onPacket
// -> handler), under all interleavings. The handler must be entered in packet order.
//
//verif:unwind 12
//verif:preempt 2
//verif:rand concrete
func verifH_C02_dispatch_server() {
	w := verifServerWorld("/")
	w.conn.parser = &verifFrameParser{log: &w.encoded}
	socks := w.verifConnected("/")
	s := socks["/"]
	order := ""
	s.OnEvent("first", func() { order += "1" })
	s.OnEvent("second", func() { order += "2" })
	verifThreads(true)
	if verifAnyBool() {
		w.conn.onEIOPacket(verifMsg("5/,first#1"), &eioparser.Packet{Type: eioparser.PacketTypeMessage, IsBinary: true, Data: []byte{1}}, verifMsg("2/,second"))
	} else {
		w.conn.onEIOPacket(verifMsg("2/,first"), verifMsg("2/,second"))
	}
	verifWaitQuiescent()
	verifAssert(len(order) == 2, "both events reach their handlers exactly once")
	verifAssert(order == "12", "events of one emitter are handed to the receiving application in the order they were sent")
	verifReach("end")
}

// C02_dispatch_client: the same as C02_dispatch_server on the client: two EVENT packets for one namespace arriving in
// one Engine.IO payload through the real Manager.onEIOPacket -> onParserFinish -> clientSocket.onPacket -> handler.
//
//verif:unwind 12
//verif:preempt 2
func verifH_C02_dispatch_client() {
	var log []verifEncoded
	m, cl := verifClientWorld(&verifFrameParser{log: &log}, "/")
	order := ""
	cl["/"].OnEvent("first", func() { order += "1" })
	cl["/"].OnEvent("second", func() { order += "2" })
	verifThreads(true)
	m.onEIOPacket(verifMsg("2/,first"), verifMsg("2/,second"))
	verifWaitQuiescent()
	verifAssert(len(order) == 2, "both events reach their handlers exactly once")
	verifAssert(order == "12", "events of one emitter are handed to the receiving application in the order they were sent")
	verifReach("end")
}

// C02_dispatch_burst: a burst: five events of one emitter arrive in two Engine.IO payloads ([1,2,3] then [4,5]) while the
// handlers of the first ones are still running (every handler yields once, so the reader's second payload can land at
// any point of the dispatching), under all interleavings at synchronisation points. Every event is handed over exactly
// once and in the order it was sent, on the server and on the client.
//
//verif:unwind 16
//verif:preempt 2
//verif:visops 120
//verif:rand concrete
func verifH_C02_dispatch_burst() {
	order := ""
	onServer := verifAnyBool()
	var deliver func(frames ...string)
	if onServer {
		w := verifServerWorld("/")
		w.conn.parser = &verifFrameParser{log: &w.encoded}
		s := w.verifConnected("/")["/"]
		for _, n := range []string{"1", "2", "3", "4", "5"} {
			name := n
			s.OnEvent("e"+name, func() {
				order += name
				verifYield()
			})
		}
		deliver = func(frames ...string) {
			var ps []*eioparser.Packet
			for _, f := range frames {
				ps = append(ps, verifMsg(f))
			}
			w.conn.onEIOPacket(ps...)
		}
	} else {
		var log []verifEncoded
		m, cl := verifClientWorld(&verifFrameParser{log: &log}, "/")
		for _, n := range []string{"1", "2", "3", "4", "5"} {
			name := n
			cl["/"].OnEvent("e"+name, func() {
				order += name
				verifYield()
			})
		}
		deliver = func(frames ...string) {
			var ps []*eioparser.Packet
			for _, f := range frames {
				ps = append(ps, verifMsg(f))
			}
			m.onEIOPacket(ps...)
		}
	}
	verifThreads(true)
	deliver("2/,e1", "2/,e2", "2/,e3")
	deliver("2/,e4", "2/,e5")
	verifWaitQuiescent()
	verifAssert(len(order) == 5, "every event of the burst reaches its handler exactly once")
	verifAssert(order == "12345", "events of one emitter are handed to the receiving application in the order they were sent")
	verifReach("end")
}
