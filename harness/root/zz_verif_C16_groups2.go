package sio

import (
	eioparser "github.com/karagenc/socket.io-go/engine.io/parser"
	"github.com/karagenc/socket.io-go/parser"
)

// C16_G4_clientsocket: Emit (plain, with ack, volatile) / OnEvent / OffEvent / an incoming event / an incoming ACK /
// Disconnect racing on one connected client socket of the client world (real Manager queue, recording encoder).
//
//verif:unwind 14
//verif:preempt.quick 1
//verif:preempt.thorough 2
//verif:visops 120
func verifH_C16_G4_clientsocket() {
	var log []verifEncoded
	m, cl := verifClientWorld(verifRecParser{log: &log}, "/")
	s := cl["/"]
	got := 0
	h := func() { got++ }
	s.OnEvent("x", h)
	// an ack handler that calls back into the socket
	s.Emit("q", func(string) {
		s.Emit("again", func(string) {})
	})
	op := func(k int) {
		switch k {
		case 0:
			s.Emit("e", "v")
		case 1:
			s.Emit("e", func(string) {})
		case 2:
			s.Volatile().Emit("e", "v")
		case 3:
			s.OnEvent("y", func() {})
		case 4:
			s.OffEvent("x", h)
		case 5:
			s.onPacket(&parser.PacketHeader{Type: parser.PacketTypeEvent, Namespace: "/"}, "x", verifArgDecode)
		case 6:
			rid := uint64(0)
			s.onPacket(&parser.PacketHeader{Type: parser.PacketTypeAck, Namespace: "/", ID: &rid}, "", verifReplyDecode("r"))
		case 7:
			s.Disconnect()
		}
	}
	a, b := verifChoose(0, 7), verifChoose(0, 7)
	verifTimers(true) // timed waits (the drain wait of a closing packet queue) run out at quiescence instead of counting as blocked
	verifThreads(true)
	verifGo(func() { op(a) })
	verifGo(func() { op(b) })
	verifWaitQuiescent()
	verifAssert(verifBlocked() == 0, "no goroutine left blocked: clientSocket")
	verifAssert(verifHeldLocks() == 0, "no mutex left held: clientSocket")
	_ = m
	verifReach("end")
}

// C16_G6_namespace: namespace-wide operations (Emit, To(room).Emit, SocketsJoin, SocketsLeave, FetchSockets,
// DisconnectSockets, Sockets) racing each other and racing a client that is just being admitted (the real
// serverConn.connect through a middleware) on a server world with one socket already connected.
//
//verif:unwind 14
//verif:preempt 1
//verif:visops 140
//verif:rand concrete
func verifH_C16_G6_namespace() {
	w := verifServerWorld("/", "/b")
	w.verifConnected("/")
	n := w.nsp("/")
	nb := w.nsp("/b")
	nb.Use(func(socket ServerSocket, handshake *Handshake) any {
		socket.Join("mw")
		return nil
	})
	op := func(k int, ns *Namespace) {
		switch k {
		case 0:
			ns.Emit("news", 1)
		case 1:
			ns.To("r1").Emit("news", 1)
		case 2:
			ns.SocketsJoin("r1")
		case 3:
			ns.SocketsLeave("r1")
		case 4:
			ns.FetchSockets()
		case 5:
			ns.DisconnectSockets(false)
		case 6:
			ns.Sockets()
		}
	}
	a := verifChoose(0, 6)
	b := -1 // quick: one operation against the admission; thorough: every pair of operations as well
	if verifThorough() {
		b = verifChoose(a, 6)
	}
	onB := verifAnyBool() // the operations target the namespace of the socket being admitted, or the other one
	target := n
	if onB {
		target = nb
	}
	verifThreads(true)
	verifGo(func() { op(a, target) })
	if b >= 0 {
		verifGo(func() { op(b, target) })
	}
	verifGo(func() {
		w.conn.connect(&parser.PacketHeader{Type: parser.PacketTypeConnect, Namespace: "/b"}, verifNoDecode)
	})
	verifWaitQuiescent()
	verifAssert(verifBlocked() == 0, "no goroutine left blocked: namespace operations")
	verifAssert(verifHeldLocks() == 0, "no mutex left held: namespace operations")
	verifReach("end")
}

// verifAckParser completes every frame as the ACK with the given id carrying one string.
type verifAckParser struct{ id uint64 }

func (p *verifAckParser) Encode(h *parser.PacketHeader, v any) ([][]byte, error) {
	return [][]byte{{'0' + byte(h.Type)}}, nil
}
func (p *verifAckParser) Reset() {}
func (p *verifAckParser) Add(data []byte, finish parser.Finish) error {
	id := p.id
	finish(&parser.PacketHeader{Type: parser.PacketTypeAck, Namespace: "/", ID: &id}, "", verifReplyDecode("r"))
	return nil
}

// C16_G5_client_ack_ops: operations issued from a CLIENT's acknowledgement callback, with the ACK arriving through the real
// reader path (Manager.onEIOPacket, which holds the parser mutex while it decodes): the callback disconnects the socket,
// closes the Manager, emits again, or registers / removes a handler. Nothing deadlocks, no mutex is left held, the
// callback ran exactly once and the reader can take the next frame.
//
//verif:unwind 14
func verifH_C16_G5_client_ack_ops() {
	ap := &verifAckParser{}
	m, cl := verifClientWorld(ap, "/")
	s := cl["/"]
	s.registerSubEvents()
	op := verifChoose(0, 4)
	calls := 0
	s.Emit("q", func(string) {
		calls++
		switch op {
		case 0:
			s.Disconnect()
		case 1:
			m.Close()
		case 2:
			s.Emit("again", func(string) {})
		case 3:
			s.OnEvent("x", func() {})
		case 4:
			s.OffEvent("x")
		}
	})
	verifTimers(true)
	m.onEIOPacket(&eioparser.Packet{Type: eioparser.PacketTypeMessage, Data: []byte("3")})
	verifWaitQuiescent()
	verifAssert(calls == 1, "the acknowledgement callback runs exactly once")
	verifAssert(verifHeldLocks() == 0, "no mutex left held after an operation issued from an acknowledgement callback")
	verifAssert(verifBlocked() == 0, "no goroutine left blocked")
	// the reader is still alive: it can take (and refuse to match) another frame
	ap.id = 99
	m.onEIOPacket(&eioparser.Packet{Type: eioparser.PacketTypeMessage, Data: []byte("3")})
	verifWaitQuiescent()
	verifAssert(verifHeldLocks() == 0, "the reader path is usable afterwards")
	verifReach("end")
}
