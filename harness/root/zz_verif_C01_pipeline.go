package sio

import (
	"bytes"
	"time"

	"github.com/karagenc/socket.io-go/adapter"
	eioparser "github.com/karagenc/socket.io-go/engine.io/parser"
	"github.com/karagenc/socket.io-go/parser"
)

// verifCarry moves the Engine.IO packets the server queued to the client the way a transport does: "websocket-like"
// (every packet its own frame, binary frames raw) or "polling-like" (all packets of one response joined by the real
// EncodePayloads, binary as base64, split by the real DecodePayloads).
func verifCarry(m *Manager, packets []*eioparser.Packet, polling bool) {
	if len(packets) == 0 {
		return
	}
	if polling {
		var buf bytes.Buffer
		err := eioparser.EncodePayloads(&buf, packets...)
		verifAssert(err == nil, "payload encoding does not fail")
		got, err := eioparser.DecodePayloads(bytes.NewReader(buf.Bytes()))
		verifAssert(err == nil, "a payload produced by the encoder decodes")
		m.onEIOPacket(got...)
		return
	}
	for _, p := range packets {
		var buf bytes.Buffer
		err := p.Encode(&buf, true)
		verifAssert(err == nil, "frame encoding does not fail")
		got, err := eioparser.Decode(bytes.NewReader(buf.Bytes()), p.IsBinary)
		verifAssert(err == nil, "a frame produced by the encoder decodes")
		m.onEIOPacket(got)
	}
}

// C01_pipeline_s2c: k events emitted by the server on a connected socket travel through the real frame pipeline - emit ->
// connection send path -> packet queue -> Engine.IO encode / decode (websocket-like or polling-like) -> client parser
// mutex -> routing by namespace -> dispatch by event name -> handler call - and reach exactly the handlers registered
// for that event name on the peer, exactly once each, with byte-identical binary attachments in their places. Event i
// has a symbolic name choice (two names with handlers, one without) and 0..2 attachments of symbolic bytes.
//
//verif:unwind 40
//verif:rand concrete
func verifH_C01_pipeline_s2c() {
	K := 1
	if verifThorough() {
		K = 2
	}
	w := verifServerWorld("/")
	pipe := &verifPipeParser{}
	w.conn.parser = pipe
	srv := w.verifConnected("/")["/"]
	srv.parser = &verifPipeParser{}
	w.conn.eioPacketQueue.get() // drop the CONNECT reply

	m, cl := verifClientWorld(&verifPipeParser{}, "/", "/other")
	c := cl["/"]
	type rec struct {
		name string
		a, b []byte
	}
	var got []rec
	c.OnEvent("alpha", func(a []byte, b []byte) { got = append(got, rec{"alpha", a, b}) })
	c.OnEvent("beta", func(a []byte, b []byte) { got = append(got, rec{"beta", a, b}) })
	cl["/other"].OnEvent("alpha", func(a []byte, b []byte) { got = append(got, rec{"WRONG-NAMESPACE", a, b}) })

	polling := verifAnyBool()
	k := verifChoose(1, K)
	var sent []rec
	names := []string{"alpha", "beta", "gamma"}
	for i := 0; i < k; i++ {
		name := names[verifChoose(0, 2)]
		na := verifChoose(0, 2)
		var a, b []byte
		args := []any{}
		if na >= 1 {
			a = verifBytes(verifChoose(0, 2))
			args = append(args, a)
		}
		if na >= 2 {
			b = verifBytes(verifChoose(1, 2))
			args = append(args, b)
		}
		srv.Emit(name, args...)
		sent = append(sent, rec{name, a, b})
	}
	verifCarry(m, w.conn.eioPacketQueue.get(), polling)
	verifWaitQuiescent()

	want := 0
	for _, s := range sent {
		if s.name == "gamma" {
			continue // no handler registered: must reach nobody
		}
		want++
		n := 0
		for _, g := range got {
			if g.name == s.name && verifEqBytes(g.a, s.a) && verifEqBytes(g.b, s.b) {
				n++
			}
		}
		verifAssert(n >= 1, "every emitted event reaches the peer's handler for that event name with byte-identical attachments in their places")
	}
	verifAssert(len(got) == want, "each event is handed over exactly once, and never to a handler of another event or namespace")
	verifAssert(pipe.pending == nil, "no half-assembled packet is left in the decoder")
	_ = parser.PacketTypeEvent
	verifReach("end")
}

// C01_pipeline_c2s: the other direction: events emitted by a connected client socket travel through clientSocket.emit ->
// _sendBuffers -> Manager.packet -> packet queue -> Engine.IO encode / decode -> serverConn.onEIOPacket -> routing ->
// serverSocket.onPacket -> event middleware chain (empty) -> handler.
//
//verif:unwind 40
//verif:rand concrete
func verifH_C01_pipeline_c2s() {
	w := verifServerWorld("/", "/other")
	w.conn.parser = &verifPipeParser{}
	socks := w.verifConnected("/", "/other")
	type rec struct {
		name string
		a, b []byte
	}
	var got []rec
	socks["/"].OnEvent("alpha", func(a []byte, b []byte) { got = append(got, rec{"alpha", a, b}) })
	socks["/"].OnEvent("beta", func(a []byte, b []byte) { got = append(got, rec{"beta", a, b}) })
	socks["/other"].OnEvent("alpha", func(a []byte, b []byte) { got = append(got, rec{"WRONG-NAMESPACE", a, b}) })

	m, cl := verifClientWorld(&verifPipeParser{}, "/")
	c := cl["/"]
	polling := verifAnyBool()
	name := []string{"alpha", "beta", "gamma"}[verifChoose(0, 2)]
	na := verifChoose(0, 2)
	var a, b []byte
	args := []any{}
	if na >= 1 {
		a = verifBytes(verifChoose(0, 2))
		args = append(args, a)
	}
	if na >= 2 {
		b = verifBytes(verifChoose(1, 2))
		args = append(args, b)
	}
	c.Emit(name, args...)
	packets := m.eioPacketQueue.get()
	// carry to the server
	if polling {
		var buf bytes.Buffer
		verifAssert(eioparser.EncodePayloads(&buf, packets...) == nil, "payload encoding does not fail")
		gotP, err := eioparser.DecodePayloads(bytes.NewReader(buf.Bytes()))
		verifAssert(err == nil, "a payload produced by the encoder decodes")
		w.conn.onEIOPacket(gotP...)
	} else {
		for _, p := range packets {
			var buf bytes.Buffer
			verifAssert(p.Encode(&buf, true) == nil, "frame encoding does not fail")
			gp, err := eioparser.Decode(bytes.NewReader(buf.Bytes()), p.IsBinary)
			verifAssert(err == nil, "a frame produced by the encoder decodes")
			w.conn.onEIOPacket(gp)
		}
	}
	verifWaitQuiescent()
	if name == "gamma" {
		verifAssert(len(got) == 0, "an event without a handler reaches nobody")
	} else {
		verifAssert(len(got) == 1 && got[0].name == name && verifEqBytes(got[0].a, a) && verifEqBytes(got[0].b, b), "the event reaches exactly the peer's handler for its name, once, with byte-identical attachments in their places")
	}
	verifAssert(w.eio.closed == 0, "a well-formed event does not close the connection")
	verifReach("end")
}

// C01_pipeline_recovery: the server -> client pipeline with connection state recovery ON: emit goes through the real
// session-aware adapter (which logs the packet and appends its offset as a last argument), the frames travel as in
// C01_pipeline_s2c, and the client - holding a session id - strips the offset before the handler: the handler gets
// exactly the emitted attachments, once; emitting the same values twice yields two deliveries with equal
// arguments (the adapter's encoding leaves the values intact).
//
//verif:unwind 40
//verif:rand concrete
//verif:sleep gate
func verifH_C01_pipeline_recovery() {
	w := &verifSrv{}
	creator := func() parser.Parser { return &verifPipeParser{} }
	verifServerWorldWith(w, creator, adapter.NewSessionAwareAdapterCreator(time.Hour), "/")
	w.server.connectionStateRecovery.Enabled = true
	w.conn.parser = &verifPipeParser{}
	srv := w.verifConnected("/")["/"]
	w.conn.eioPacketQueue.get() // drop the CONNECT reply

	m, cl := verifClientWorld(&verifPipeParser{}, "/")
	c := cl["/"]
	c.setPID("pid1")
	type rec struct{ a, b []byte }
	var got []rec
	c.OnEvent("alpha", func(a []byte, b []byte) { got = append(got, rec{a, b}) })
	polling := verifAnyBool()
	a := verifBytes(verifChoose(0, 2))
	b := verifBytes(verifChoose(1, 2))
	twice := verifAnyBool()
	srv.Emit("alpha", a, b)
	if twice {
		srv.Emit("alpha", a, b)
	}
	verifCarry(m, w.conn.eioPacketQueue.get(), polling)
	verifWaitQuiescent()
	want := 1
	if twice {
		want = 2
	}
	verifAssert(len(got) == want, "with state recovery on, each emitted event is handed over exactly once")
	for _, g := range got {
		verifAssert(verifEqBytes(g.a, a) && verifEqBytes(g.b, b), "with byte-identical attachments in their places, the offset stripped")
	}
	// (the frame-preserving codec stand-in carries only the binary arguments; that the offset string is recorded and
	// stripped is C08_glue_client's subject)
	verifReach("end")
}

// C01_concurrent_emitters: two goroutines emit an event with one binary attachment each on the same connection at the same
// time (real emit -> sendBuffers -> packet queue), under all interleavings at synchronisation points; the queue's content
// then travels through the pipeline of C01_pipeline_s2c to the client. Both events reach their own handler exactly
// once, each with its own attachment: no event gets another event's frame as its attachment, none is lost, and the
// client's decoder is left with no half-assembled packet.
//
//verif:unwind 40
//verif:preempt 2
//verif:visops 120
//verif:rand concrete
func verifH_C01_concurrent_emitters() {
	w := verifServerWorld("/")
	w.conn.parser = &verifPipeParser{}
	srv := w.verifConnected("/")["/"]
	srv.parser = &verifPipeParser{}
	w.conn.eioPacketQueue.get() // drop the CONNECT reply

	pipe := &verifPipeParser{}
	m, cl := verifClientWorld(pipe, "/")
	c := cl["/"]
	var gotA, gotB [][]byte
	c.OnEvent("alpha", func(a []byte) { gotA = append(gotA, a) })
	c.OnEvent("beta", func(a []byte) { gotB = append(gotB, a) })
	closes := 0
	m.OnClose(func(Reason, error) { closes++ })
	polling := verifAnyBool()
	verifThreads(true)
	verifGo(func() { srv.Emit("alpha", []byte{'A', 'A'}) })
	verifGo(func() { srv.Emit("beta", []byte{'B'}) })
	verifWaitQuiescent()
	verifCarry(m, w.conn.eioPacketQueue.get(), polling)
	verifWaitQuiescent()
	verifAssert(len(gotA) == 1 && len(gotB) == 1, "both concurrently emitted events reach their handlers exactly once")
	if len(gotA) == 1 && len(gotB) == 1 {
		verifAssert(verifEqBytes(gotA[0], []byte{'A', 'A'}) && verifEqBytes(gotB[0], []byte{'B'}), "each with its own attachment, not another event's frame")
	}
	verifAssert(pipe.pending == nil && closes == 0, "no half-assembled packet is left in the decoder and the connection stays up")
	verifReach("end")
}
