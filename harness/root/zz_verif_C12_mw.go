package sio

import (
	"encoding/json"
	"errors"
	"reflect"
	"time"

	"github.com/karagenc/socket.io-go/adapter"

	"github.com/karagenc/socket.io-go/parser"
)

type verifRejectData struct{ Code int }

// C12_nsp_chain: k namespace middlewares each accepting or rejecting according to a symbolic Boolean (rejections as
// error / string / struct pointer / struct value with ANY field value / ANY short string); the real serverConn.connect runs on a default or custom namespace. Middlewares run in
// registration order up to the first rejection; the socket is listed, in its own room, connected, and its connection
// handlers scheduled IFF nothing rejected; on rejection exactly one CONNECT_ERROR carrying that rejection goes out and
// nothing of the socket remains.
//
//verif:unwind 12
//verif:rand concrete
func verifH_C12_nsp_chain() {
	K := 3
	if verifThorough() {
		K = 5
	}
	name := "/"
	if verifAnyBool() {
		name = "/admin"
	}
	w := verifServerWorld(name)
	n := w.nsp(name)
	k := verifChoose(0, K)
	var ran []int
	firstReject := -1
	kind := verifChoose(0, 4)
	code := verifAnyInt()                  // kind 3: structured data by value, ANY field value (the zero value included)
	text := verifString(verifChoose(0, 1)) // kind 4: ANY string of length 0..1 (the empty string included)
	for i := 0; i < k; i++ {
		idx := i
		rej := verifAnyBool()
		if rej && firstReject < 0 {
			firstReject = i
		}
		n.Use(func(socket ServerSocket, handshake *Handshake) any {
			ran = append(ran, idx)
			// while the chain is running the socket is not connected yet: nothing lists it and no broadcast reaches it,
			// even if a middleware puts it into a room
			verifAssert(len(n.Sockets()) == 0, "a socket is not listed in the namespace before every middleware accepted it")
			socket.Join("early")
			n.Emit("hello")
			n.To("early").Emit("hello")
			verifAssert(len(w.conn.eioPacketQueue.get()) == 0, "no broadcast reaches a socket whose admission is still being decided")
			if !rej {
				return nil
			}
			switch kind {
			case 0:
				return errors.New("denied")
			case 1:
				return "denied"
			case 3:
				return verifRejectData{Code: code}
			case 4:
				return text
			}
			return &verifRejectData{Code: idx}
		})
	}
	connected := 0
	n.OnConnection(func(ServerSocket) { connected++ })
	w.conn.connect(&parser.PacketHeader{Type: parser.PacketTypeConnect, Namespace: name}, verifNoDecode)
	verifWaitQuiescent() // connection handlers run on their own goroutine

	// order and short-circuit
	wantRan := k
	if firstReject >= 0 {
		wantRan = firstReject + 1
	}
	verifAssert(len(ran) == wantRan, "middlewares run up to and including the first rejection, no further")
	for i := range ran {
		verifAssert(ran[i] == i, "middlewares run in registration order")
	}
	socks := n.Sockets()
	_, inConn := w.conn.sockets.getByNsp(name)
	if firstReject < 0 {
		verifAssert(len(socks) == 1 && inConn, "an accepted socket is listed in the namespace and on its connection")
		if len(socks) == 1 {
			s := socks[0].(*serverSocket)
			verifAssert(s.Connected(), "an accepted socket is connected")
			verifAssert(verifInRoom(n, s.ID(), Room(s.ID())), "an accepted socket joined its own room")
		}
		verifAssert(connected == 1, "connection handlers run once for an accepted socket")
		verifAssert(w.countEncoded(parser.PacketTypeConnect, name) == 1 && w.countEncoded(parser.PacketTypeConnectError, name) == 0, "an accepted socket gets CONNECT and no CONNECT_ERROR")
	} else {
		verifAssert(len(socks) == 0 && !inConn, "nothing of a rejected socket remains in the namespace or on the connection")
		verifAssert(connected == 0, "connection handlers do not run for a rejected socket")
		verifAssert(w.countEncoded(parser.PacketTypeConnectError, name) == 1 && w.countEncoded(parser.PacketTypeConnect, name) == 0, "a rejected socket gets exactly one CONNECT_ERROR and no CONNECT")
		if w.countEncoded(parser.PacketTypeConnectError, name) == 1 {
			var ce *connectError
			for _, e := range w.encoded {
				if e.typ == parser.PacketTypeConnectError {
					ce, _ = e.v.(*connectError)
				}
			}
			verifAssert(ce != nil, "CONNECT_ERROR carries a connectError")
			if ce != nil {
				switch kind {
				case 0, 1:
					msg, isStr := ce.Message.(string)
					verifAssert(isStr && msg == "denied", "CONNECT_ERROR carries the rejecting middleware's message")
				case 2:
					d, isData := ce.Message.(*verifRejectData)
					verifAssert(isData && d.Code == firstReject, "CONNECT_ERROR carries the rejecting middleware's data")
				case 3:
					d, isData := ce.Message.(verifRejectData)
					verifAssert(isData && d.Code == code, "CONNECT_ERROR carries the rejecting middleware's data (by value)")
				case 4:
					msg, isStr := ce.Message.(string)
					verifAssert(isStr && msg == text, "CONNECT_ERROR carries the rejecting middleware's string, whatever it is")
				}
			}
		}
	}
	verifAssert(verifHeldLocks() == 0, "no mutex left held")
	verifReach("end")
}

type verifPayload struct{ A int }

// C12_event_mw: a per-socket event middleware registered through the real Use sees each incoming event's NAME and
// arguments before the handler, for handler signatures whose first parameter is a string or not, with and without an
// ack function; an event it rejects never reaches the handler, one it accepts reaches it exactly once.
//
//verif:unwind 12
//verif:rand concrete
func verifH_C12_event_mw() {
	s := &serverSocket{
		nsp:           &Namespace{name: "/"},
		debug:         newNoopDebugger(),
		acks:          make(map[uint64]*ackHandler),
		eventHandlers: newEventHandlerStore(),
		errorHandlers: newHandlerStore[*ServerSocketErrorFunc](),
		connected:     true,
	}
	reject := verifAnyBool()
	sawName := ""
	sawArgs := -1
	mwCalls := 0
	order := ""
	s.Use(func(eventName string, v ...any) error {
		mwCalls++
		sawName, sawArgs = eventName, len(v)
		order += "m"
		if reject {
			return errors.New("rejected")
		}
		return nil
	})
	handled := 0
	wantArgs := 0
	switch verifChoose(0, 4) {
	case 0:
		s.OnEvent("ev", func(a string) { handled++; order += "h" })
		wantArgs = 1
	case 1:
		s.OnEvent("ev", func(a int) { handled++; order += "h" })
		wantArgs = 1
	case 2:
		s.OnEvent("ev", func(a verifPayload, b string) { handled++; order += "h" })
		wantArgs = 2
	case 3:
		s.OnEvent("ev", func() { handled++; order += "h" })
	case 4:
		s.OnEvent("ev", func(a int, ack func(string)) { handled++; order += "h" })
		wantArgs = 2
	}
	errs := 0
	ef := ServerSocketErrorFunc(func(error) { errs++ })
	s.errorHandlers.on(&ef)
	err := s.onPacket(&parser.PacketHeader{Type: parser.PacketTypeEvent, Namespace: "/"}, "ev", verifArgDecode)
	verifWaitQuiescent()
	verifAssert(err == nil, "an event packet is not a fatal error")
	verifAssert(mwCalls == 1, "the event middleware runs once per event")
	verifAssert(sawName == "ev", "the event middleware sees the event's name")
	verifAssert(sawArgs == wantArgs, "the event middleware sees the event's arguments")
	if reject {
		verifAssert(handled == 0, "an event rejected by a middleware never reaches the handler")
		verifAssert(errs == 1, "the rejection is reported to the socket's error handlers")
	} else {
		verifAssert(handled == 1 && order == "mh", "an accepted event reaches its handler exactly once, after the middleware")
		verifAssert(errs == 0, "no error is reported for an accepted event")
	}
	verifReach("end")
}

// C12_concurrent: two clients (two connections of the same server) ask for the same namespace at the same time; the
// middleware accepts or rejects each of them by its own symbolic verdict and yields while deciding, so the two
// admissions interleave in every way at synchronisation points. Each client ends up exactly as its own verdict says:
// the accepted one listed, connected and answered with CONNECT, the rejected one nowhere and answered with one
// CONNECT_ERROR - a verdict never leaks from one admission to the other.
//
//verif:unwind 12
//verif:preempt 2
//verif:visops 140
//verif:rand concrete
func verifH_C12_concurrent() {
	w := verifServerWorld("/")
	n := w.nsp("/")
	eio2 := &verifEIOSock{id: "eio2"}
	var enc2 []verifEncoded
	conn2 := &serverConn{eio: eio2, eioPacketQueue: newPacketQueue(), server: w.server, sockets: newServerSocketStore(), nsps: newNspStore(), parser: verifRecParser{log: &enc2}, debug: newNoopDebugger()}
	acc1, acc2 := verifAnyBool(), verifAnyBool()
	n.Use(func(socket ServerSocket, handshake *Handshake) any {
		s := socket.(*serverSocket)
		verdict := acc1
		if s.conn == conn2 {
			verdict = acc2
		}
		verifYield()
		if verdict {
			return nil
		}
		return "denied"
	})
	verifThreads(true)
	verifGo(func() {
		w.conn.connect(&parser.PacketHeader{Type: parser.PacketTypeConnect, Namespace: "/"}, verifNoDecode)
	})
	verifGo(func() {
		conn2.connect(&parser.PacketHeader{Type: parser.PacketTypeConnect, Namespace: "/"}, verifNoDecode)
	})
	verifWaitQuiescent()
	_, in1 := w.conn.sockets.getByNsp("/")
	_, in2 := conn2.sockets.getByNsp("/")
	verifAssert(in1 == acc1 && in2 == acc2, "each connection is attached exactly if its own admission was accepted")
	want := 0
	if acc1 {
		want++
	}
	if acc2 {
		want++
	}
	verifAssert(len(n.Sockets()) == want, "the namespace lists exactly the accepted sockets")
	count := func(log []verifEncoded, typ parser.PacketType) int {
		c := 0
		for _, e := range log {
			if e.typ == typ {
				c++
			}
		}
		return c
	}
	c1ok, c1err := count(w.encoded, parser.PacketTypeConnect), count(w.encoded, parser.PacketTypeConnectError)
	c2ok, c2err := count(enc2, parser.PacketTypeConnect), count(enc2, parser.PacketTypeConnectError)
	verifAssert((c1ok == 1) == acc1 && (c1err == 1) == !acc1 && c1ok+c1err == 1, "the first client gets exactly the answer its verdict calls for")
	verifAssert((c2ok == 1) == acc2 && (c2err == 1) == !acc2 && c2ok+c2err == 1, "so does the second")
	verifAssert(verifHeldLocks() == 0, "no mutex left held")
	verifReach("end")
}

// C12_recovery_chain: connection state recovery is ON (middlewares are skipped for RECOVERED sessions by default). A
// client presents ANY private session id and offset in its CONNECT (each 0..1 symbolic bytes: absent, or one it made
// up) - nothing was ever persisted, so no session can be restored - to a namespace whose middleware rejects. The
// claim alone is no ticket past the middlewares: the chain runs, the client is refused with CONNECT_ERROR, nothing of
// the socket remains. (With an accepting middleware it is admitted as a NEW socket: not marked recovered.)
//
//verif:unwind 14
//verif:rand concrete
//verif:sleep gate
func verifH_C12_recovery_chain() {
	w := &verifSrv{}
	verifServerWorldWith(w, func() parser.Parser { return verifRecParser{log: &w.encoded} }, adapter.NewSessionAwareAdapterCreator(time.Hour), "/")
	w.server.connectionStateRecovery.Enabled = true
	n := w.nsp("/")
	accept := verifAnyBool()
	ran := 0
	n.Use(func(socket ServerSocket, handshake *Handshake) any {
		ran++
		if accept {
			return nil
		}
		return "denied"
	})
	pid := verifString(verifChoose(0, 1))
	off := verifString(verifChoose(0, 1))
	for _, x := range []string{pid, off} {
		for i := 0; i < len(x); i++ {
			verifAssume(x[i] >= 'a' && x[i] <= 'z')
		}
	}
	auth := json.RawMessage(`{"pid":"` + pid + `","offset":"` + off + `"}`)
	w.conn.connect(&parser.PacketHeader{Type: parser.PacketTypeConnect, Namespace: "/"}, func(types ...reflect.Type) ([]reflect.Value, error) {
		return []reflect.Value{reflect.ValueOf(&auth)}, nil
	})
	verifWaitQuiescent()
	verifAssert(ran == 1, "a session that cannot be restored goes through the middleware chain like any new client")
	socks := n.Sockets()
	if accept {
		verifAssert(len(socks) == 1 && !socks[0].Recovered(), "accepted: admitted as a new socket, not marked recovered")
	} else {
		verifAssert(len(socks) == 0, "rejected: nothing of the socket remains")
		verifAssert(w.countEncoded(parser.PacketTypeConnectError, "/") == 1 && w.countEncoded(parser.PacketTypeConnect, "/") == 0, "rejected: one CONNECT_ERROR, no CONNECT")
	}
	verifReach("end")
}
