package sio

// C02_onconnect_order: per-emitter order, client -> server, for events emitted BEFORE the socket is connected: they are
// still buffered when the CONNECT answer arrives (real clientSocket.onConnect) and a connect handler emits a further
// event at once. On the wire the emitter's earlier events go first, in the order they were emitted; what the connect
// handler emits follows them (kernel shared with C15_offline_onconnect).
//
//verif:unwind 16
//verif:rand concrete
func verifH_C02_onconnect_order() { verifOnConnectOrderBody() }
