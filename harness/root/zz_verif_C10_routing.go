package sio

import (
	"errors"
	"reflect"

	eioparser "github.com/karagenc/socket.io-go/engine.io/parser"
	"github.com/karagenc/socket.io-go/parser"
)

var errVerifDecode = errors.New("verif: bad frame")

// verifFaultyParser is the decoder seen from the routing code: for a frame it either fails (Add returns an error) or
// completes a packet whose decode closure - asked later, for the handler's parameter types - fails, hands back the
// wrong number of values, or succeeds. Which of these happens is symbolic.
type verifFaultyParser struct {
	addFails   bool
	decodeMode int // 0 ok, 1 error, 2 one value too few, 3 one value too many
	typ        parser.PacketType
	id         *uint64
}

func (p *verifFaultyParser) Encode(h *parser.PacketHeader, v any) ([][]byte, error) {
	return [][]byte{{'0' + byte(h.Type)}}, nil
}
func (p *verifFaultyParser) Reset() {}
func (p *verifFaultyParser) Add(data []byte, finish parser.Finish) error {
	if p.addFails {
		return errVerifDecode
	}
	decode := func(types ...reflect.Type) ([]reflect.Value, error) {
		switch p.decodeMode {
		case 1:
			return nil, errVerifDecode
		case 2:
			if len(types) > 0 {
				types = types[1:]
			} else {
				return []reflect.Value{reflect.ValueOf("extra")}, nil
			}
		case 3:
			types = append(append([]reflect.Type{}, types...), reflect.TypeOf(""))
		}
		// like the real decoder (convertTypesToValues): a pointer to a fresh value per requested type
		out := make([]reflect.Value, len(types))
		for i, t := range types {
			if t.Kind() == reflect.Ptr {
				t = t.Elem()
			}
			out[i] = reflect.New(t)
		}
		return out, nil
	}
	finish(&parser.PacketHeader{Type: p.typ, Namespace: "/", ID: p.id}, "ev", decode)
	return nil
}

// C10_routing_server: whatever the decoder makes of a peer's frame - refuses it, or accepts it and then fails / misbehaves
// when asked for the handler's argument types (handler signature families: no parameters, string, struct pointer,
// []byte, with ack function) - nothing panics on any goroutine, the failure is reported (frame refused: the socket's error
// handlers run and the connection is closed; arguments undecodable: the error handlers run, the event handler does not,
// the connection stays), and another connection of the same server keeps working.
//
//verif:unwind 14
//verif:rand concrete
func verifH_C10_routing_server() {
	w := verifServerWorld("/")
	fp := &verifFaultyParser{typ: parser.PacketTypeEvent}
	s := w.verifConnected("/")["/"]
	// a second connection of the same server
	eio2 := &verifEIOSock{id: "eio2"}
	conn2 := &serverConn{eio: eio2, eioPacketQueue: newPacketQueue(), server: w.server, sockets: newServerSocketStore(), nsps: newNspStore(), parser: verifRecParser{log: &w.encoded}, debug: newNoopDebugger()}
	conn2.connect(&parser.PacketHeader{Type: parser.PacketTypeConnect, Namespace: "/"}, verifNoDecode)
	verifWaitQuiescent()
	other, ok2 := conn2.sockets.getByNsp("/")
	verifAssert(ok2, "second connection attached")

	w.conn.parser = fp
	fp.addFails = verifAnyBool()
	fp.decodeMode = verifChoose(0, 3)
	if verifAnyBool() {
		id := verifAnyUint64()
		fp.id = &id
	}
	called, errs := 0, 0
	type payload struct{ A int }
	switch verifChoose(0, 4) {
	case 0:
		s.OnEvent("ev", func() { called++ })
	case 1:
		s.OnEvent("ev", func(a string) { called++ })
	case 2:
		s.OnEvent("ev", func(p *payload) { called++ })
	case 3:
		s.OnEvent("ev", func(b []byte) { called++ })
	case 4:
		s.OnEvent("ev", func(a string, ack func(string)) { called++ })
	}
	s.OnError(func(error) { errs++ })
	w.conn.onEIOPacket(&eioparser.Packet{Type: eioparser.PacketTypeMessage, Data: []byte("x")})
	verifWaitQuiescent()
	switch {
	case fp.addFails:
		verifAssert(errs == 1 && called == 0, "a refused frame is reported to the socket's error handlers and reaches no event handler")
		verifAssert(w.eio.closed == 1, "and the connection is closed")
	case fp.decodeMode == 0:
		verifAssert(called == 1 && errs == 0, "a decodable event reaches its handler once, no error")
		verifAssert(w.eio.closed == 0, "the connection stays open")
	default:
		verifAssert(called == 0, "an event whose arguments cannot be decoded never reaches the handler")
		verifAssert(errs >= 1, "the failure is reported to the socket's error handlers")
		verifAssert(w.eio.closed == 0, "the connection stays open")
	}
	// the rest of the server keeps working
	verifAssert(eio2.closed == 0 && other.Connected(), "other connections are not affected")
	got := 0
	other.OnEvent("ping", func() { got++ })
	other.onPacket(&parser.PacketHeader{Type: parser.PacketTypeEvent, Namespace: "/"}, "ping", verifArgDecode)
	verifAssert(got == 1, "and still receive their events")
	verifAssert(verifHeldLocks() == 0, "no mutex left held")
	verifReach("end")
}

// C10_routing_client: the same on the client: a refused frame closes the manager with the parse-error reason (reported
// to the close handlers, once); undecodable arguments are reported to the manager's error handlers and the event handler
// is not called; nothing panics.
//
//verif:unwind 14
func verifH_C10_routing_client() {
	fp := &verifFaultyParser{typ: parser.PacketTypeEvent}
	m, cl := verifClientWorld(fp, "/")
	s := cl["/"]
	fp.addFails = verifAnyBool()
	fp.decodeMode = verifChoose(0, 3)
	called, errs, closes := 0, 0, 0
	var reason Reason
	type payload struct{ A int }
	switch verifChoose(0, 3) {
	case 0:
		s.OnEvent("ev", func() { called++ })
	case 1:
		s.OnEvent("ev", func(a string) { called++ })
	case 2:
		s.OnEvent("ev", func(p *payload) { called++ })
	case 3:
		s.OnEvent("ev", func(b []byte) { called++ })
	}
	m.OnError(func(error) { errs++ })
	m.OnClose(func(r Reason, err error) { closes++; reason = r })
	verifTimers(true)
	m.onEIOPacket(&eioparser.Packet{Type: eioparser.PacketTypeMessage, Data: []byte("x")})
	verifWaitQuiescent()
	switch {
	case fp.addFails:
		verifAssert(closes == 1 && reason == ReasonParseError && called == 0, "a refused frame closes the client with the parse-error reason, once, and reaches no handler")
	case fp.decodeMode == 0:
		verifAssert(called == 1 && errs == 0 && closes == 0, "a decodable event reaches its handler once")
	default:
		verifAssert(called == 0 && errs >= 1 && closes == 0, "undecodable arguments are reported to the error handlers, the handler is not called, the client stays connected")
	}
	verifAssert(verifHeldLocks() == 0, "no mutex left held")
	verifReach("end")
}
