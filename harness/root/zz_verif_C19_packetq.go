package sio

import (
	eioparser "github.com/karagenc/socket.io-go/engine.io/parser"
)

// C19_packetq: the per-connection send queue. One consumer polling in a loop (as pollAndSend does), P producers adding
// one packet each, optionally a closer. At quiescence the consumer is not parked while packets are queued; every packet
// is received exactly once or still queued (or dropped by close, which discards the queue by design); after close the
// consumer's next poll reports closed.
//
//verif:unwind 10
//verif:preempt 2
func verifH_C19_packetq() {
	P := 2
	p := verifChoose(1, P)
	withClose := verifAnyBool()
	pq := newPacketQueue()
	pk := make([]*eioparser.Packet, p)
	for i := range pk {
		pk[i] = &eioparser.Packet{Type: eioparser.PacketTypeMessage, Data: []byte{byte('a' + i)}}
	}
	var got []*eioparser.Packet
	sawClosed := false
	verifThreads(true)
	verifGo(func() {
		for i := 0; i < 3; i++ {
			r, ok, closed := pq.poll()
			if closed {
				sawClosed = true
				return
			}
			if ok {
				got = append(got, r...)
			}
		}
	})
	for i := 0; i < p; i++ {
		q := pk[i]
		verifGo(func() { pq.add(q) })
	}
	if withClose {
		verifGo(func() { pq.close() })
	}
	verifWaitQuiescent()
	pq.mu.Lock()
	queued := len(pq.packets)
	pq.mu.Unlock()
	verifAssert(!(verifBlocked() > 0 && queued > 0), "no lost wake-up: the sender is not parked while packets are queued")
	for _, q := range pk {
		n := 0
		for _, g := range got {
			if g == q {
				n++
			}
		}
		inQueue := 0
		for _, g := range pq.packets {
			if g == q {
				inQueue++
			}
		}
		verifAssert(n+inQueue <= 1, "no packet is delivered twice")
		if !withClose {
			verifAssert(n+inQueue == 1, "every packet is delivered or still queued")
		}
	}
	if sawClosed {
		verifAssert(withClose, "closed is reported only after close")
	}
	verifReach("end")
}
