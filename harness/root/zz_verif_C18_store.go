package sio

import "reflect"

func verifCount(xs []int, v int) int {
	n := 0
	for _, x := range xs {
		n += verifIte(x == v, 1, 0)
	}
	return n
}

func verifContains(xs []int, v int) bool { return verifCount(xs, v) > 0 }

// verifIDs returns n symbolic handler identities drawn from a 4-element universe: duplicates, absent handlers and
// every aliasing pattern are cases of one symbolic state.
func verifIDs(n int) []int {
	out := make([]int, n)
	for i := range out {
		v := verifAnyInt()
		verifAssume(v >= 0 && v <= 3)
		out[i] = v
	}
	return out
}

// C18_model_off: handlerStore.off from an ARBITRARY store state (the generic store instantiated at int so that handler
// identity is a symbolic value): removes every occurrence of the named handlers and nothing else, never panics;
// off() without arguments removes everything.
//
//verif:unwind 12
func verifH_C18_model_off() {
	NF, NO, NA := 3, 2, 2
	if verifThorough() {
		NF, NO, NA = 4, 3, 3
	}
	funcs := verifIDs(verifChoose(0, NF))
	once := verifIDs(verifChoose(0, NO))
	args := verifIDs(verifChoose(0, NA))
	s := newHandlerStore[int]()
	s.funcs = append([]int(nil), funcs...)
	s.funcsOnce = append([]int(nil), once...)
	s.off(args...)
	for v := 0; v <= 3; v++ {
		wantF, wantO := verifCount(funcs, v), verifCount(once, v)
		if len(args) == 0 {
			wantF, wantO = 0, 0
		} else {
			named := verifContains(args, v)
			wantF, wantO = verifIte(named, 0, wantF), verifIte(named, 0, wantO)
		}
		verifAssert(verifCount(s.funcs, v) == wantF, "off removes exactly the named On handlers (all of them when none is named) and no other")
		verifAssert(verifCount(s.funcsOnce, v) == wantO, "off removes exactly the named Once handlers (all of them when none is named) and no other")
	}
	verifAssert(verifHeldLocks() == 0, "store mutex released")
	verifReach("end")
}

// C18_model_fire: On handlers are returned for every occurrence, Once handlers for exactly one.
//
//verif:unwind 12
func verifH_C18_model_fire() {
	funcs := verifIDs(verifChoose(0, 2))
	once := verifIDs(verifChoose(0, 2))
	subs := verifIDs(verifChoose(0, 1))
	s := newHandlerStore[int]()
	for _, h := range subs {
		s.onSubEvent(h)
	}
	for _, h := range funcs {
		s.on(h)
	}
	for _, h := range once {
		s.once(h)
	}
	first := s.getAll()
	second := s.getAll()
	for v := 0; v <= 3; v++ {
		verifAssert(verifCount(first, v) == verifCount(subs, v)+verifCount(funcs, v)+verifCount(once, v), "first occurrence reaches every registered handler once per registration")
		verifAssert(verifCount(second, v) == verifCount(subs, v)+verifCount(funcs, v), "second occurrence reaches On handlers again and Once handlers no more")
	}
	s.offAll()
	verifAssert(len(s.getAll()) == len(subs), "offAll removes all On/Once handlers")
	verifReach("end")
}

// C18_event_off: eventHandlerStore.off(name, handlers...) from an arbitrary state of two events.
//
//verif:unwind 12
func verifH_C18_event_off() {
	NE, NO, NA := 3, 2, 2
	if verifThorough() {
		NE, NO, NA = 4, 2, 3
	}
	s := newEventHandlerStore()
	ne, no, na := verifChoose(0, NE), verifChoose(0, NO), verifChoose(0, NA)
	ev := make([]int, ne)
	for i := range ev {
		ev[i] = verifChoose(0, 2)
		s.on("x", verifEH(ev[i]))
	}
	evOnce := make([]int, no)
	for i := range evOnce {
		evOnce[i] = verifChoose(0, 2)
		s.once("x", verifEH(evOnce[i]))
	}
	other := verifEH(0)
	s.on("y", other)
	var args []reflect.Value
	argIDs := make([]int, na)
	for i := range argIDs {
		argIDs[i] = verifChoose(0, 2)
		args = append(args, reflect.ValueOf(verifHandlerFns[argIDs[i]]))
	}
	s.off("x", args...)
	got := s.getAll("x")
	for k := 0; k <= 2; k++ {
		want := verifCount(ev, k) + verifCount(evOnce, k)
		if na == 0 || verifContains(argIDs, k) {
			want = 0
		}
		verifAssert(verifCountEH(got, k) == want, "OffEvent removes exactly the named handlers of that event (all when none is named)")
	}
	oy := s.getAll("y")
	verifAssert(len(oy) == 1 && oy[0] == other, "handlers of another event are untouched")
	verifReach("end")
}

// C18_event_fire: occurrences of an event that overlap: the handler list handed to an occurrence still being dispatched
// is not changed by a later registration or a later occurrence; every On handler is in every list, every Once handler
// in exactly one (n On handlers for every n up to the bound: the slice capacities 1, 2, 4, 8 are all crossed).
//
//verif:unwind 16
func verifH_C18_event_fire() {
	N := 4
	if verifThorough() {
		N = 9
	}
	s := newEventHandlerStore()
	n := verifChoose(0, N)
	for i := 0; i < n; i++ {
		s.on("x", verifEH(0))
	}
	k1, k2 := verifChoose(0, 2), verifChoose(0, 2)
	for i := 0; i < k1; i++ {
		s.once("x", verifEH(1))
	}
	first := s.getAll("x") // occurrence 1 is being dispatched from this list ...
	snap := append([]*eventHandler(nil), first...)
	for i := 0; i < k2; i++ {
		s.once("x", verifEH(2)) // ... while new Once handlers are registered ...
	}
	second := s.getAll("x") // ... and occurrence 2 arrives
	third := s.getAll("x")
	same := len(first) == len(snap)
	for i := 0; same && i < len(snap); i++ {
		same = first[i] == snap[i]
	}
	verifAssert(same, "the handler list of an occurrence in flight is not changed by later registrations or occurrences")
	verifAssert(verifCountEH(first, 0) == n && verifCountEH(first, 1) == k1 && verifCountEH(first, 2) == 0, "occurrence 1 reaches the On handlers and the Once handlers registered before it")
	verifAssert(verifCountEH(second, 0) == n && verifCountEH(second, 1) == 0 && verifCountEH(second, 2) == k2, "occurrence 2 reaches the On handlers and only the Once handlers registered since")
	verifAssert(verifCountEH(third, 0) == n && len(third) == n, "occurrence 3 reaches the On handlers only")
	verifReach("end")
}

// C18_model_inflight: the same for the generic lifecycle handler store (OnConnect, OnDisconnect, ...).
//
//verif:unwind 16
func verifH_C18_model_inflight() {
	N := 4
	if verifThorough() {
		N = 9
	}
	s := newHandlerStore[int]()
	n := verifChoose(0, N)
	for i := 0; i < n; i++ {
		s.on(0)
	}
	k1, k2 := verifChoose(0, 2), verifChoose(0, 2)
	for i := 0; i < k1; i++ {
		s.once(1)
	}
	first := s.getAll()
	snap := append([]int(nil), first...)
	for i := 0; i < k2; i++ {
		s.once(2)
	}
	second := s.getAll()
	same := len(first) == len(snap)
	for i := 0; same && i < len(snap); i++ {
		same = first[i] == snap[i]
	}
	verifAssert(same, "the handler list of an occurrence in flight is not changed by later registrations or occurrences")
	verifAssert(verifCount(first, 0) == n && verifCount(first, 1) == k1 && verifCount(first, 2) == 0, "occurrence 1 reaches the On handlers and the Once handlers registered before it")
	verifAssert(verifCount(second, 0) == n && verifCount(second, 1) == 0 && verifCount(second, 2) == k2, "occurrence 2 reaches the On handlers and only the Once handlers registered since")
	verifReach("end")
}
