package sio

import (
	"github.com/karagenc/socket.io-go/parser"
)

// C06_causes: a connected socket receives two termination causes concurrently (every pair of: transport close, client
// DISCONNECT, server namespace disconnect, server connection close, server shutdown) under all interleavings at
// synchronisation points. Its disconnect handler runs exactly once with the reason of a cause that occurred;
// afterwards the namespace, the connection and every room have forgotten it, and no mutex is left held.
//
//verif:unwind 16
//verif:rand concrete
//verif:preempt.quick 1
//verif:preempt.thorough 2
//verif:visops 120
func verifH_C06_causes() {
	w := verifServerWorld("/")
	n := w.nsp("/")
	w.conn.connect(&parser.PacketHeader{Type: parser.PacketTypeConnect, Namespace: "/"}, verifNoDecode)
	verifWaitQuiescent()
	socks := n.Sockets()
	verifAssert(len(socks) == 1, "socket connected")
	s := socks[0].(*serverSocket)
	sid := s.ID()
	s.Join("room1")
	calls := 0
	var got Reason
	s.OnDisconnect(func(r Reason) {
		calls++
		got = r
	})
	c1 := verifChoose(0, 4)
	c2 := verifChoose(c1, 4)
	verifThreads(true)
	verifGo(func() { verifCause(w, s, c1) })
	verifGo(func() { verifCause(w, s, c2) })
	verifWaitQuiescent()
	verifAssert(calls == 1, "the disconnect handlers of a socket run exactly once however many causes arrive at once")
	verifAssert(verifReasonOf(got, c1) || verifReasonOf(got, c2), "the reason names a cause that occurred")
	verifAssert(len(n.Sockets()) == 0, "the namespace no longer lists the socket")
	_, inConn := w.conn.sockets.getByID(sid)
	verifAssert(!inConn, "the connection no longer lists the socket")
	_, hasRooms := n.adapter.SocketRooms(sid)
	verifAssert(!hasRooms, "the socket is in no room any more")
	verifAssert(!s.Connected(), "the socket is disconnected")
	verifAssert(verifHeldLocks() == 0, "no mutex left held")
	verifReach("end")
}

// C06_admission: the connection dies (onClose) at any point while a CONNECT is being admitted through a namespace
// middleware. Once both have finished the server must not keep a socket of the dead connection: not in the namespace's
// list, not in any room.
//
//verif:unwind 16
//verif:rand concrete
//verif:preempt 2
//verif:visops 120
func verifH_C06_admission() {
	w := verifServerWorld("/")
	n := w.nsp("/")
	n.Use(func(socket ServerSocket, handshake *Handshake) any {
		verifYield() // a slow middleware
		return nil
	})
	verifThreads(true)
	verifGo(func() {
		w.conn.connect(&parser.PacketHeader{Type: parser.PacketTypeConnect, Namespace: "/"}, verifNoDecode)
	})
	verifGo(func() { w.conn.onClose(ReasonTransportClose, nil) })
	verifWaitQuiescent()
	verifAssert(len(n.Sockets()) == 0, "no socket of a closed connection stays listed in the namespace")
	verifAssert(n.adapter.Sockets(verifNoRooms()).Cardinality() == 0, "no room keeps the id of a socket of a closed connection")
	verifReach("end")
}

// C06_join_race: one termination cause races room operations on the same socket from other goroutines (a handler still
// running calls Join; an operator runs SocketsJoin on the namespace), under all interleavings at synchronisation points.
// Once everything has finished the socket is in no room, whichever side ran first, and nothing lists it.
//
//verif:unwind 16
//verif:rand concrete
//verif:preempt 2
//verif:visops 120
func verifH_C06_join_race() { verifJoinRaceBody() }
