package PKGNAME

// Harness runtime. The symbolic executor (sv) intercepts every verif* function in this file by
// name and never runs the bodies below; compiled natively (sv replay) the same functions replay one
// recorded counterexample from the JSON file named by $VERIF_REPLAY.

import (
	verifjson "encoding/json"
	verifmath "math"
	verifos "os"
	verifruntime "runtime"
	verifsync "sync"
	verifatomic "sync/atomic"
	veriftime "time"
	verifunsafe "unsafe"
)

type verifReplayVal struct {
	Kind string   `json:"kind"`
	Val  uint64   `json:"val"`
	Vals []uint64 `json:"vals"`
}

type verifReplayFile struct {
	Harness string           `json:"harness"`
	Inputs  []verifReplayVal `json:"inputs"`
	Sched   []int            `json:"sched"`
}

var verifRT struct {
	loaded bool
	file   verifReplayFile
	pos    int
	obs    []string
}

func verifLoad() {
	if verifRT.loaded {
		return
	}
	verifRT.loaded = true
	b, err := verifos.ReadFile(verifos.Getenv("VERIF_REPLAY"))
	if err != nil {
		println("VERIF-REPLAY-ERROR: cannot read replay file: " + err.Error())
		verifos.Exit(3)
	}
	if err := verifjson.Unmarshal(b, &verifRT.file); err != nil {
		println("VERIF-REPLAY-ERROR: bad replay file: " + err.Error())
		verifos.Exit(3)
	}
}

func verifNext(kind string) verifReplayVal {
	verifLoad()
	if verifRT.pos >= len(verifRT.file.Inputs) {
		println("VERIF-REPLAY-DIVERGED: out of recorded inputs, wanted " + kind)
		verifos.Exit(4)
	}
	v := verifRT.file.Inputs[verifRT.pos]
	verifRT.pos++
	if v.Kind != kind {
		println("VERIF-REPLAY-DIVERGED: wanted " + kind + " have " + v.Kind)
		verifos.Exit(4)
	}
	return v
}

func verifAnyBool() bool       { return verifNext("bool").Val != 0 }
func verifAnyByte() byte       { return byte(verifNext("byte").Val) }
func verifAnyUint16() uint16   { return uint16(verifNext("u16").Val) }
func verifAnyInt32() int32     { return int32(verifNext("i32").Val) }
func verifAnyUint32() uint32   { return uint32(verifNext("u32").Val) }
func verifAnyInt() int         { return int(verifNext("int").Val) }
func verifAnyInt64() int64     { return int64(verifNext("i64").Val) }
func verifAnyUint64() uint64   { return verifNext("u64").Val }
func verifAnyFloat64() float64 { return verifmath.Float64frombits(verifNext("f64").Val) }
func verifAnyFloat32() float32 { return verifmath.Float32frombits(uint32(verifNext("f32").Val)) }

// verifChoose returns a value in [lo,hi]; the executor forks over all of them.
func verifChoose(lo, hi int) int { return int(int64(verifNext("choose").Val)) }

// verifThorough reports whether the thorough tier is running (concrete in the executor).
func verifThorough() bool { return verifos.Getenv("VERIF_TIER") == "thorough" }

func verifAssume(c bool) {
	if !c {
		println("VERIF-ASSUME-FAILED")
		verifos.Exit(5)
	}
}

func verifAssert(c bool, msg string) {
	if !c {
		// a recorded schedule that was not followed to its end means the native run took another course than the
		// symbolic one (map iteration order, goroutines that cannot be gated): the outcome is then not comparable
		verifSch.mu.Lock()
		if verifSch.inited && len(verifSch.vec) > 0 && verifSch.pos < len(verifSch.vec) && verifos.Getenv("VERIF_FREE") == "" && !verifRaceMode {
			println("VERIF-SCHED-INCOMPLETE: the recorded schedule was followed for", verifSch.pos, "of", len(verifSch.vec), "steps")
		}
		verifSch.mu.Unlock()
		println("VERIF-ASSERT-FAIL: " + msg)
		verifos.Exit(1)
	}
}

func verifReach(tag string) {}

// verifEqBytes compares two byte slices (one equality term in the executor: no path fork per byte).
func verifEqBytes(a, b []byte) bool {
	if len(a) != len(b) {
		return false
	}
	for i := range a {
		if a[i] != b[i] {
			return false
		}
	}
	return true
}

// verifIte is a branch-free conditional for harness oracles (an ite term in the executor: no path fork).
func verifIte(c bool, a, b int) int {
	if c {
		return a
	}
	return b
}

func verifBytes(n int) []byte {
	v := verifNext("bytes")
	b := make([]byte, n)
	for i := 0; i < n && i < len(v.Vals); i++ {
		b[i] = byte(v.Vals[i])
	}
	return b
}

func verifString(n int) string { return string(verifBytes(n)) }

// verifAbstractBytes returns a byte slice of length n whose contents are irrelevant. Natively, lengths above 64 MiB are
// not backed by memory: the slice header points at one static byte, which is sound for the harnesses that use such
// lengths because they only ever take len() of the data (sizes, not contents, are their subject).
var verifOneByte [1]byte

func verifAbstractBytes(n int) []byte {
	if n < 0 {
		println("VERIF-REPLAY-TOO-LARGE: negative abstract length")
		verifos.Exit(6)
	}
	if n > 1<<26 {
		return verifunsafe.Slice(&verifOneByte[0], n)
	}
	return make([]byte, n)
}

func verifYield()                          {} // the instrumenter gates the statement that calls it
func verifObserve(tag string, vals ...any) {}
func verifThreads(on bool)                 {}
func verifTimers(on bool)                  {}

// verifWaitQuiescent: natively wait until the recorded schedule has reached the harness's own next turn (or its end),
// then give parked goroutines time to settle.
func verifWaitQuiescent() {
	if verifRaceMode {
		veriftime.Sleep(300 * veriftime.Millisecond)
		return
	}
	deadline := veriftime.Now().Add(4 * veriftime.Second)
	for {
		verifSch.mu.Lock()
		verifSchInit()
		done := verifSch.free || verifSch.pos >= len(verifSch.vec) || verifSch.vec[verifSch.pos] == 0
		verifSch.mu.Unlock()
		if done || veriftime.Now().After(deadline) {
			break
		}
		veriftime.Sleep(veriftime.Millisecond)
	}
	veriftime.Sleep(120 * veriftime.Millisecond)
}

// verifHeldLocks: executor: the number of mutexes currently held by any goroutine. Natively: the same for the mutexes
// of this package, counted by the lock instrumentation of the replay (0 in an uninstrumented build).
var verifLockCount int64

func verifLockInc()       { verifatomic.AddInt64(&verifLockCount, 1) }
func verifLockDec()       { verifatomic.AddInt64(&verifLockCount, -1) }
func verifHeldLocks() int { return int(verifatomic.LoadInt64(&verifLockCount)) }
func verifIsNative() bool { return true }
func verifMaxAlloc() int  { return 0 }
func verifAllocReset()    {}
func verifNote(s string)  {}

// verifWSReadLimit returns the message read limit of a stubbed WebSocket connection (executor only; natively the
// harness exercises a real connection instead).
func verifWSReadLimit(conn any) int64 { return 0 }

// verifDialPlan plans the outcome of the client's network dial in the executor (fails for the first n calls, then
// yields sock). Natively the dial is real: harnesses point the client at an unreachable address, which reproduces the
// all-attempts-fail patterns only.
func verifDialPlan(n int, sock any) {}

// verifDialCalls is the number of dial attempts made so far (executor only).
func verifDialCalls() int { return -1 }

// verifLastMarshal returns the value most recently handed to encoding/json.Marshal (executor only: there Marshal is an
// opaque stub; natively harnesses inspect the real output instead).
func verifLastMarshal() any { return nil }

// verifAdvance advances the (virtual) clock by d; natively it sleeps for d.
func verifAdvance(d veriftime.Duration) { veriftime.Sleep(d) }

// verifWake lets goroutines parked in time.Sleep run n more rounds (executor: gated sleep, //verif:sleep gate);
// natively the harness uses a short real period, so waiting 12ms per round gives at least n rounds.
func verifWake(n int) { veriftime.Sleep(veriftime.Duration(n) * 12 * veriftime.Millisecond) }

// verifSettle lets woken goroutines run until they park again (executor: wait for quiescence; natively a short sleep).
func verifSettle() {
	if !verifRaceMode {
		deadline := veriftime.Now().Add(2 * veriftime.Second)
		for {
			verifSch.mu.Lock()
			verifSchInit()
			done := verifSch.free || verifSch.pos >= len(verifSch.vec) || verifSch.vec[verifSch.pos] == 0
			verifSch.mu.Unlock()
			if done || veriftime.Now().After(deadline) {
				break
			}
			veriftime.Sleep(veriftime.Millisecond)
		}
	}
	veriftime.Sleep(25 * veriftime.Millisecond)
}

// ---- native schedule replay (thread harnesses) ----
// sv replay compiles instrumented copies of the package's files in which verifSched() precedes every visible
// synchronisation operation and every go statement is routed through verifSpawn/verifEnter/verifLeave. The recorded
// vector (replay file "sched") lists, in order, the logical thread that performs each of those operations.

var verifSch struct {
	mu      verifsync.Mutex
	cond    *verifsync.Cond
	vec     []int
	pos     int
	ids     map[int64]int
	next    int
	arrived map[int]bool
	exited  map[int]bool
	prev    int
	granted veriftime.Time
	free    bool
	inited  bool
}

func verifGoID() int64 {
	var buf [64]byte
	n := verifruntime.Stack(buf[:], false)
	// "goroutine 123 ["
	var id int64
	for i := len("goroutine "); i < n && buf[i] >= '0' && buf[i] <= '9'; i++ {
		id = id*10 + int64(buf[i]-'0')
	}
	return id
}

func verifSchInit() {
	if verifSch.inited {
		return
	}
	verifSch.inited = true
	verifSch.cond = verifsync.NewCond(&verifSch.mu)
	verifSch.ids = map[int64]int{verifGoID(): 0}
	verifSch.next = 1
	verifSch.arrived = map[int]bool{}
	verifSch.exited = map[int]bool{}
	verifSch.prev = -1
	verifLoad()
	verifSch.vec = verifRT.file.Sched
	if len(verifSch.vec) == 0 || verifos.Getenv("VERIF_FREE") != "" {
		// no schedule recorded, or a harness whose oracle measures real time (//verif:replay free): imposing the recorded
		// order would stretch the real intervals it measures
		verifSch.free = true
	}
	go func() { // watchdog: a diverged replay must not hang
		veriftime.Sleep(8 * veriftime.Second)
		verifSch.mu.Lock()
		if !verifSch.free && verifSch.pos < len(verifSch.vec) {
			println("VERIF-SCHED-DIVERGED: schedule replay stuck; running free")
			verifSch.free = true
		}
		verifSch.mu.Unlock()
		verifSch.cond.Broadcast()
	}()
}

// verifMainHere binds logical thread 0 to the calling goroutine (the generated replay test calls it first: package
// initialisers may already have passed a gate on the runtime's main goroutine, which is not the test's goroutine).
func verifMainHere() {
	if verifRaceMode {
		return
	}
	verifSch.mu.Lock()
	verifSchInit()
	for g, t := range verifSch.ids {
		if t == 0 {
			delete(verifSch.ids, g)
		}
	}
	verifSch.ids[verifGoID()] = 0
	verifSch.mu.Unlock()
}

// verifSpawn allocates the logical id of a goroutine about to be started (called by the parent).
func verifSpawn() int {
	verifSch.mu.Lock()
	verifSchInit()
	id := verifSch.next
	verifSch.next++
	verifSch.mu.Unlock()
	return id
}

func verifEnter(tid int) {
	verifSch.mu.Lock()
	verifSch.ids[verifGoID()] = tid
	verifSch.mu.Unlock()
}

func verifLeave(tid int) {
	verifSch.mu.Lock()
	verifSch.exited[tid] = true
	verifSch.mu.Unlock()
	verifSch.cond.Broadcast()
}

// verifRaceMode: native confirmation of a data race runs free under Go's race detector; the replay scheduler's own
// mutex must not be touched then (it would order the goroutines and hide the race).
var verifRaceMode = verifos.Getenv("VERIF_RACE") != ""

func verifGo(f func()) {
	if verifRaceMode {
		go f()
		return
	}
	tid := verifSpawn()
	go func() {
		verifEnter(tid)
		defer verifLeave(tid)
		f()
	}()
}

// verifSched blocks until the recorded schedule grants this goroutine its next visible operation.
func verifSched() {
	verifSch.mu.Lock()
	verifSchInit()
	if verifSch.free {
		verifSch.mu.Unlock()
		return
	}
	tid, known := verifSch.ids[verifGoID()]
	if verifos.Getenv("VERIF_SCHED_TRACE") != "" {
		_, file, line, _ := verifruntime.Caller(1)
		println("VERIF-SCHED arrive goid", verifGoID(), "tid", tid, "known", known, "pos", verifSch.pos, "veclen", len(verifSch.vec), file, line)
	}
	if !known {
		verifSch.mu.Unlock()
		return
	}
	verifSch.arrived[tid] = true
	verifSch.cond.Broadcast()
	for !verifSch.free {
		if verifSch.pos >= len(verifSch.vec) {
			verifSch.free = true
			verifSch.cond.Broadcast()
			break
		}
		if verifSch.vec[verifSch.pos] == tid {
			// the previous grantee must have finished its operation (arrived at its next gate or exited) or be parked in it
			p := verifSch.prev
			if p < 0 || p == tid || verifSch.arrived[p] || verifSch.exited[p] || veriftime.Since(verifSch.granted) > 25*veriftime.Millisecond {
				verifSch.pos++
				verifSch.prev = tid
				verifSch.granted = veriftime.Now()
				verifSch.arrived[tid] = false
				verifSch.cond.Broadcast()
				break
			}
			// wait a little for the previous operation to complete or park
			verifSch.mu.Unlock()
			veriftime.Sleep(veriftime.Millisecond)
			verifSch.mu.Lock()
			continue
		}
		// not our turn: if the thread whose turn it is never shows up the watchdog frees everyone
		verifSch.mu.Unlock()
		veriftime.Sleep(200 * veriftime.Microsecond)
		verifSch.mu.Lock()
	}
	verifSch.mu.Unlock()
}

// verifBlocked counts goroutines (other than the harness) that are neither finished nor waiting at a schedule gate,
// i.e. parked inside an operation. Meaningful after verifWaitQuiescent.
func verifBlocked() int {
	if verifRaceMode {
		return 0
	}
	verifSch.mu.Lock()
	defer verifSch.mu.Unlock()
	verifSchInit()
	n := 0
	for tid := 1; tid < verifSch.next; tid++ {
		if !verifSch.exited[tid] && !(verifSch.arrived[tid] && !verifSch.free) {
			n++
		}
	}
	return n
}
