package eio

// C16_G9_eio_client_upgrade: operations issued from a lifecycle handler of the Engine.IO CLIENT socket: the application's
// UpgradeDone handler asks the socket for its transport name and sends a message while the upgrade completes (real
// tryUpgradeTo / finishUpgradeTo, all four probe outcomes). Nothing deadlocks, no mutex is left held, the upgrade
// attempt terminates (kernel shared with C07_client).
//
//verif:unwind 40
//verif:sleep gate
func verifH_C16_G9_eio_client_upgrade() { verifClientUpgradeBody() }
