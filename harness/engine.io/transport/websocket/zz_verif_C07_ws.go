package websocket

// C07_ws_after_upgrade: the WebSocket transport a client creates FOR AN UPGRADE (it already holds the session id, so its
// handshake does not read an OPEN packet): after the swap every server -> client message within the announced
// maxPayload must still be admitted - in particular sizes beyond the WebSocket library's 32 KiB default, which the
// polling transport delivered without trouble before the upgrade. M and the message size are symbolic in [0, 2^40].
//
//verif:unwind 12
func verifH_C07_ws_after_upgrade() { verifWSLimits(true) }
