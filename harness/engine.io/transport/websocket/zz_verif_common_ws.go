package websocket

import (
	"net/http"
	"net/http/httptest"
	"net/url"
	"strings"
	"time"

	"github.com/karagenc/socket.io-go/engine.io/parser"
	"github.com/karagenc/socket.io-go/engine.io/transport"
	"nhooyr.io/websocket"
)

type verifWSRW struct{ hdr http.Header }

func (w *verifWSRW) Header() http.Header {
	if w.hdr == nil {
		w.hdr = http.Header{}
	}
	return w.hdr
}
func (w *verifWSRW) Write(b []byte) (int, error) { return len(b), nil }
func (w *verifWSRW) WriteHeader(int)             {}

// verifWSLimits is the body of C13_ws_limits and C07_ws_after_upgrade (see there).
func verifWSLimits(onlyUpgrade bool) {
	M := verifAnyInt64()
	verifAssume(M >= 0 && M <= 1<<40)
	m := verifAnyInt64() // size of a server->client message within the announced limit
	verifAssume(m >= 0 && m <= 1<<40 && (M == 0 || m <= M))
	up := verifAnyInt64() // size of a client->server message
	verifAssume(up >= 0 && up <= 1<<40)
	upgrade := onlyUpgrade || verifAnyBool()
	sid := ""
	if upgrade {
		sid = "sid1"
	}
	if verifIsNative() {
		verifWSNative(M, m, up, sid)
		return
	}
	st := NewServerTransport(transport.NewCallbacks(), M, true, nil)
	_, err := st.Handshake(nil, &verifWSRW{}, &http.Request{Method: "GET", URL: &url.URL{Path: "/engine.io/"}, Header: http.Header{}})
	verifAssert(err == nil, "server handshake succeeds")
	ls := verifWSReadLimit(st.conn)
	if M > 0 {
		if up <= M {
			verifAssert(ls < 0 || up <= ls, "the server accepts every inbound WebSocket message within MaxBufferSize")
		} else {
			verifAssert(ls >= 0 && up > ls, "the server refuses an inbound WebSocket message larger than MaxBufferSize")
		}
	} else {
		verifAssert(ls < 0 || up <= ls, "with MaxBufferSize disabled the server accepts inbound WebSocket messages of any size")
	}
	u, _ := url.Parse("http://verif.invalid/engine.io/")
	ct := NewClientTransport(transport.NewCallbacks(), sid, 4, *u, nil, &websocket.DialOptions{})
	ct.Handshake() // a fresh connection goes on to read the OPEN packet, which the stub cannot deliver: the limit must be set before that
	verifAssert(ct.conn != nil, "client dialled")
	lc := verifWSReadLimit(ct.conn)
	verifAssert(lc < 0 || m <= lc, "the client accepts every WebSocket message within the maxPayload the server announced (any size when none is announced)")
	verifReach("end")
}

// verifWSNative pushes messages of the model's sizes (capped at 200000 bytes, still beyond the library's 32 KiB default)
// through a real loop-back WebSocket connection between the repository's server and client transports.
func verifWSNative(M, m, up int64, sid string) {
	capTo := func(v int64) int {
		if v > 200000 {
			return 200000
		}
		return int(v)
	}
	upN, mN := capTo(up), capTo(m)
	if M > 0 && int64(upN) <= M && up > M {
		upN = int(M) + 1 // keep "larger than the limit" true after capping
	}
	type result struct {
		gotLen int
		err    error
	}
	serverGot := make(chan result, 1)
	ts := httptest.NewServer(http.HandlerFunc(func(w http.ResponseWriter, r *http.Request) {
		st := NewServerTransport(transport.NewCallbacks(), M, true, nil)
		if _, err := st.Handshake(nil, w, r); err != nil {
			serverGot <- result{0, err}
			return
		}
		if sid == "" {
			// fresh connection: the client expects the OPEN packet first
			st.Send(&parser.Packet{Type: parser.PacketTypeOpen, Data: []byte(`{"sid":"x","upgrades":[],"pingInterval":25000,"pingTimeout":20000,"maxPayload":` + itoa(M) + `}`)})
		}
		st.Send(&parser.Packet{Type: parser.PacketTypeMessage, Data: make([]byte, mN)})
		p, err := st.nextPacket()
		n := 0
		if p != nil {
			n = len(p.Data)
		}
		serverGot <- result{n, err}
		time.Sleep(200 * time.Millisecond)
	}))
	defer ts.Close()
	u, _ := url.Parse(strings.Replace(ts.URL, "http://", "http://", 1) + "/engine.io/")
	ct := NewClientTransport(transport.NewCallbacks(), sid, 4, *u, nil, &websocket.DialOptions{})
	_, err := ct.Handshake()
	verifAssert(err == nil, "client dialled")
	p, err := ct.nextPacket()
	verifAssert(err == nil && p != nil && len(p.Data) == mN, "the client accepts every WebSocket message within the maxPayload the server announced (any size when none is announced)")
	ct.Send(&parser.Packet{Type: parser.PacketTypeMessage, Data: make([]byte, upN)})
	var r result
	select {
	case r = <-serverGot:
	case <-time.After(3 * time.Second):
		r = result{0, http.ErrHandlerTimeout}
	}
	if M > 0 {
		if up <= M {
			verifAssert(r.err == nil && r.gotLen == upN, "the server accepts every inbound WebSocket message within MaxBufferSize")
		} else {
			verifAssert(r.err != nil, "the server refuses an inbound WebSocket message larger than MaxBufferSize")
		}
	} else {
		verifAssert(r.err == nil && r.gotLen == upN, "with MaxBufferSize disabled the server accepts inbound WebSocket messages of any size")
	}
}

func itoa(v int64) string {
	if v == 0 {
		return "0"
	}
	var b []byte
	for v > 0 {
		b = append([]byte{byte('0' + v%10)}, b...)
		v /= 10
	}
	return string(b)
}
