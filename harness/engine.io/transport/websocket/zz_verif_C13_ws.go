package websocket

// C13_ws_limits: the per-message read limits of the WebSocket transport. M is what Engine.IO's server passes to the
// transport and announces as maxPayload in the handshake (MaxBufferSize, or 0 when the limit is disabled), symbolic in
// [0, 2^40]. Server: the connection's read limit is exactly M (larger messages rejected, everything within accepted),
// and unlimited when M is 0. Client (fresh connection and upgrade): every message within the announced maxPayload -
// any size when none is announced - is admitted by the connection's read limit.
// In the executor the WebSocket library is a stub whose only state is the read limit (default read from the module's
// source); natively the same sizes are pushed through a real loop-back WebSocket pair of the two transports.
//
//verif:unwind 12
func verifH_C13_ws_limits() { verifWSLimits(false) }
