package polling

import (
	"time"

	"github.com/karagenc/socket.io-go/engine.io/parser"
)

// C02_pollq_batch: the batch a poll (or the upgrade's QueuedPackets) took from the long-polling queue is still being
// written to the HTTP answer when further packets are sent: the batch keeps exactly the packets it was given, in
// order, and the later packets come out in the next batch, each once, in order - for every k packets taken (1..3) and
// m packets sent afterwards (1..3; all slice capacities crossed), through poll and through get.
//
//verif:unwind 12
func verifH_C02_pollq_batch() {
	pq := newPollQueue()
	k, m := verifChoose(1, 3), verifChoose(1, 3)
	mk := func(tag byte, i int) *parser.Packet {
		return &parser.Packet{Type: parser.PacketTypeMessage, Data: []byte{tag, byte('0' + i)}}
	}
	var first, later []*parser.Packet
	for i := 0; i < k; i++ {
		p := mk('a', i)
		first = append(first, p)
		if verifAnyBool() {
			pq.add(p)
		} else if i+1 < k {
			// two packets handed over in one call
			q := mk('a', i+1)
			first = append(first, q)
			pq.add(p, q)
			i++
		} else {
			pq.add(p)
		}
	}
	var batch []*parser.Packet
	if verifAnyBool() {
		batch = pq.poll(time.Hour)
	} else {
		batch = pq.get()
	}
	verifAssert(len(batch) == len(first), "the batch holds every queued packet")
	for i := 0; i < m; i++ {
		p := mk('b', i)
		later = append(later, p)
		pq.add(p) // sent while the batch above is still being written
	}
	for i := range first {
		verifAssert(i < len(batch) && batch[i] == first[i], "a batch that was taken is not disturbed by packets sent afterwards")
	}
	next := pq.get()
	verifAssert(len(next) == len(later), "the packets sent afterwards come out in the next batch")
	for i := range later {
		verifAssert(i < len(next) && next[i] == later[i], "each once, in the order they were sent")
	}
	verifReach("end")
}
