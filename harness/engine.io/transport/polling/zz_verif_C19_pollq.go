package polling

import (
	"time"

	"github.com/karagenc/socket.io-go/engine.io/parser"
)

// C19_pollq: every interleaving (at synchronisation points) of one consumer doing one poll with P producers each
// adding one packet to the long-polling queue. Timers are NOT enabled: a timeout is exactly the "unrelated event" that
// must not be needed. At quiescence: the consumer is not parked while packets are queued (no lost wake-up); a poll
// that returned is not empty; every packet is either returned or still queued, exactly once.
//
//verif:unwind 8
//verif:preempt 3
func verifH_C19_pollq() {
	P := 2
	if verifThorough() {
		P = 3
	}
	p := verifChoose(1, P)
	pq := newPollQueue()
	var got []*parser.Packet
	returned := false
	pk := make([]*parser.Packet, p)
	for i := range pk {
		pk[i] = &parser.Packet{Type: parser.PacketTypeMessage, Data: []byte{byte('a' + i)}}
	}
	verifThreads(true)
	verifGo(func() {
		got = pq.poll(time.Hour)
		returned = true
	})
	for i := 0; i < p; i++ {
		q := pk[i]
		verifGo(func() { pq.add(q) })
	}
	verifWaitQuiescent()
	queued := pq.len()
	verifAssert(!(verifBlocked() > 0 && queued > 0), "no lost wake-up: the poll is not left waiting while packets are queued and all producers are done")
	if returned {
		verifAssert(len(got) > 0, "a poll does not answer empty")
	}
	verifAssert(len(got)+queued == p, "every packet is returned by the poll or still queued, exactly once")
	seen := 0
	for _, g := range got {
		for _, q := range pk {
			if g == q {
				seen++
			}
		}
	}
	verifAssert(seen == len(got), "returned packets are the added ones")
	verifReach("end")
}

// C19_pollq_stale: a wake-up signal left over from packets that an earlier poll already took must not make the next
// poll answer empty, and must not hide a later add.
//
//verif:unwind 8
//verif:preempt 3
func verifH_C19_pollq_stale() {
	pq := newPollQueue()
	a := &parser.Packet{Type: parser.PacketTypeMessage, Data: []byte{'a'}}
	b := &parser.Packet{Type: parser.PacketTypeMessage, Data: []byte{'b'}}
	pq.add(a)
	first := pq.poll(time.Hour)
	verifAssert(len(first) == 1 && first[0] == a, "queued packet is returned at once")
	var got []*parser.Packet
	returned := false
	withAdd := verifAnyBool()
	verifThreads(true)
	verifGo(func() {
		got = pq.poll(time.Hour)
		returned = true
	})
	if withAdd {
		verifGo(func() { pq.add(b) })
	}
	verifWaitQuiescent()
	queued := pq.len()
	if returned {
		verifAssert(len(got) > 0, "a poll does not answer empty")
	}
	verifAssert(!(verifBlocked() > 0 && queued > 0), "no lost wake-up: the poll is not left waiting while packets are queued and all producers are done")
	if withAdd {
		verifAssert(len(got)+queued == 1, "the later packet is returned or still queued, exactly once")
	} else {
		verifAssert(!returned && queued == 0, "without a new packet the poll keeps waiting (for the timeout)")
	}
	verifReach("end")
}

// C19_pollq_two: TWO poll requests are pending on the same queue (a client may have a second GET in flight) while
// packets are added one after the other, under all interleavings at synchronisation points. At quiescence no poll is
// left waiting while a packet is queued; a poll that returned is not empty; every packet was returned exactly once or is
// still queued with nobody waiting.
//
//verif:unwind 8
//verif:preempt 2
func verifH_C19_pollq_two() {
	pq := newPollQueue()
	a := &parser.Packet{Type: parser.PacketTypeMessage, Data: []byte{'a'}}
	b := &parser.Packet{Type: parser.PacketTypeMessage, Data: []byte{'b'}}
	var got1, got2 []*parser.Packet
	ret1, ret2 := false, false
	oneProducer := verifAnyBool()
	verifThreads(true)
	verifGo(func() {
		got1 = pq.poll(time.Hour)
		ret1 = true
	})
	verifGo(func() {
		got2 = pq.poll(time.Hour)
		ret2 = true
	})
	if oneProducer {
		verifGo(func() {
			pq.add(a)
			pq.add(b)
		})
	} else {
		verifGo(func() { pq.add(a) })
		verifGo(func() { pq.add(b) })
	}
	verifWaitQuiescent()
	queued := pq.len()
	verifAssert(!(verifBlocked() > 0 && queued > 0), "no lost wake-up: no poll is left waiting while packets are queued and all producers are done")
	if ret1 {
		verifAssert(len(got1) > 0, "a poll does not answer empty")
	}
	if ret2 {
		verifAssert(len(got2) > 0, "a poll does not answer empty")
	}
	verifAssert(len(got1)+len(got2)+queued == 2, "every packet is returned by exactly one poll or still queued")
	verifReach("end")
}
