package polling

import (
	"io"
	"net/http"
	"net/url"
	"time"

	"github.com/karagenc/socket.io-go/engine.io/parser"
	"github.com/karagenc/socket.io-go/engine.io/transport"
)

// verifBody is a request body that counts how many bytes the server takes from it.
type verifBody struct {
	data   []byte
	pos    int
	served int
	closed bool
}

func (b *verifBody) Read(p []byte) (int, error) {
	if b.pos >= len(b.data) {
		return 0, io.EOF
	}
	n := copy(p, b.data[b.pos:])
	b.pos += n
	b.served += n
	return n, nil
}
func (b *verifBody) Close() error { b.closed = true; return nil }

type verifPollRW struct {
	status int
	hdr    http.Header
}

func (w *verifPollRW) Header() http.Header {
	if w.hdr == nil {
		w.hdr = http.Header{}
	}
	return w.hdr
}
func (w *verifPollRW) Write(b []byte) (int, error) {
	if w.status == 0 {
		w.status = 200
	}
	return len(b), nil
}
func (w *verifPollRW) WriteHeader(code int) {
	if w.status == 0 {
		w.status = code
	}
}

// C13_polling_post: a long-polling POST of L body bytes (one MESSAGE packet) against maxHTTPBufferSize M, with the size
// declared in Content-Length or NOT declared (chunked body: ContentLength -1). M is symbolic in [1,8] (or 0 = disabled),
// L ranges over 0..12, so L < M, L == M, L == M+1 and L >> M are all covered. A body above the limit is never handed to
// the application, the transport is closed and at most M+1 bytes are taken from the body; a body within the limit is
// accepted and delivered intact.
//
//verif:unwind 40
func verifH_C13_polling_post() {
	M := verifAnyInt64()
	verifAssume(M >= 0 && M <= 8)
	L := verifChoose(0, 12)
	chunked := verifAnyBool()
	delivered := 0
	deliveredLen := -1
	closedWith := 0
	c := transport.NewCallbacks()
	c.Set(func(packets ...*parser.Packet) {
		for _, p := range packets {
			delivered++
			deliveredLen = len(p.Data)
		}
	}, func(name string, err error) { closedWith++ })
	t := NewServerTransport(c, M, time.Hour)
	data := make([]byte, L)
	for i := range data {
		data[i] = 'a'
	}
	if L > 0 {
		data[0] = '4'
	}
	body := &verifBody{data: data}
	r := &http.Request{Method: "POST", URL: &url.URL{Path: "/engine.io/"}, ProtoMajor: 1, ProtoMinor: 1, Header: http.Header{}, Body: body, ContentLength: int64(L)}
	if chunked {
		r.ContentLength = -1
	}
	w := &verifPollRW{}
	t.handleDataRequest(w, r)
	verifWaitQuiescent()
	if M > 0 && int64(L) > M {
		verifAssert(delivered == 0, "a body larger than MaxBufferSize is never handed to the application, declared or not")
		verifAssert(closedWith == 1, "the transport is closed when the limit is exceeded")
		verifAssert(int64(body.served) <= M+1, "no more than MaxBufferSize+1 bytes are taken from an oversized body")
		verifAssert(w.status == 413 || w.status == 400, "an oversized body is refused")
	} else if L > 0 {
		verifAssert(delivered == 1 && deliveredLen == L-1, "a body within the limit is accepted and delivered intact")
		verifAssert(w.status == 200 && closedWith == 0, "a body within the limit is answered 200 and keeps the transport open")
	}
	verifReach("end")
}
