package webtransport

import (
	"io"

	"github.com/karagenc/socket.io-go/engine.io/parser"
)

// verifWTWriter records the frame header (first Write) and the sizes of all later writes.
type verifWTWriter struct {
	header  []byte
	first   byte // first payload byte (type digit of text packets)
	hasByte bool
	total   int
	calls   int
}

func (w *verifWTWriter) Write(p []byte) (int, error) {
	if w.calls == 0 {
		w.header = append([]byte(nil), p...)
	} else {
		if w.calls == 1 && len(p) == 1 {
			w.first = p[0]
			w.hasByte = true
		}
		w.total += len(p)
	}
	w.calls++
	return len(p), nil
}

// verifWTReader serves the header bytes, then a payload of `remaining` abstract bytes whose first byte is `first`.
type verifWTReader struct {
	header    []byte
	pos       int
	remaining int
	first     byte
	hasFirst  bool
	served    int
	maxReq    int
}

func (r *verifWTReader) Read(p []byte) (int, error) {
	if r.pos < len(r.header) {
		n := copy(p, r.header[r.pos:])
		r.pos += n
		return n, nil
	}
	n := len(p)
	if n > r.maxReq {
		r.maxReq = n
	}
	if n > r.remaining {
		n = r.remaining
	}
	if n == 0 && len(p) > 0 {
		return 0, io.EOF
	}
	if r.served == 0 && r.hasFirst && n > 0 {
		p[0] = r.first
	}
	r.served += n
	r.remaining -= n
	return n, nil
}

func verifWTRoundTrip(maxLen int) {
	n := verifAnyInt()
	verifAssume(n >= 0 && n <= maxLen)
	isBin := verifAnyBool()
	tb := byte(parser.PacketTypeMessage)
	if !isBin {
		tb = verifAnyByte()
		verifAssume(tb <= 6)
	}
	pkt := &parser.Packet{IsBinary: isBin, Type: parser.PacketType(tb), Data: verifAbstractBytes(n)}
	w := &verifWTWriter{}
	err := send(w, pkt)
	verifAssert(err == nil, "send does not fail on a working writer")
	enc := n
	if !isBin {
		enc = n + 1
	}
	verifAssert(w.total == enc, "payload bytes written equal the encoded length")
	// v4 WebTransport framing: 1/3/9 byte header, binary flag in the top bit, big-endian length
	h := w.header
	switch {
	case enc < 126:
		verifAssert(len(h) == 1 && int(h[0]&0x7f) == enc, "1-byte header carries the length")
	case enc < 65536:
		verifAssert(len(h) == 3 && h[0]&0x7f == 126 && int(h[1])<<8|int(h[2]) == enc, "3-byte header carries a 16-bit length")
	default:
		ok := len(h) == 9 && h[0]&0x7f == 127
		if ok {
			v := 0
			for i := 1; i < 9; i++ {
				v = v<<8 | int(h[i])
			}
			ok = v == enc
		}
		verifAssert(ok, "9-byte header carries a 64-bit length")
	}
	verifAssert((h[0]&0x80 != 0) == isBin, "top bit of the header is the binary flag")

	r := &verifWTReader{header: h, remaining: enc, first: w.first, hasFirst: w.hasByte}
	got, err := nextPacket(r)
	verifAssert(err == nil, "a frame produced by send is accepted by nextPacket")
	if err != nil {
		return
	}
	verifAssert(r.remaining == 0, "nextPacket consumes exactly the frame")
	verifAssert(got.IsBinary == isBin, "binary flag round-trips")
	verifAssert(got.Type == pkt.Type, "packet type round-trips")
	verifAssert(len(got.Data) == n, "payload length round-trips for every frame length")
	verifReach("end")
}


// verifWTAlloc: an arbitrary 9-byte frame header from the peer, read through the server's limited reader, never makes
// nextPacket allocate more than the configured limit (and never panics); a frame whose declared length is within the
// limit is not refused for its size.
func verifWTAlloc(wide bool) {
	limit := verifAnyInt64()
	hdr := verifBytes(9)
	avail := verifAnyInt()
	if wide {
		verifAssume(limit >= 0 && limit <= 1<<40)
		verifAssume(avail >= 0 && avail <= 1<<41)
	} else {
		// natively replayable sizes: declared length < 2^24
		verifAssume(limit >= 0 && limit <= 1<<20)
		verifAssume(avail >= 0 && avail <= 1<<24)
		verifAssume(hdr[1] == 0 && hdr[2] == 0 && hdr[3] == 0 && hdr[4] == 0 && hdr[5] == 0)
	}
	first := verifAnyByte()
	verifAssume(first != 'b') // base64 text payloads are decoded over concrete bytes in C11_decode_total
	// the peer sends a header of the form it announces in the first byte, then `avail` payload bytes
	form := hdr[0] & 0x7f
	hl := 1
	if form == 126 {
		hl = 3
	} else if form == 127 {
		hl = 9
	}
	r := &verifWTReader{header: hdr[:hl], remaining: avail, first: first, hasFirst: true}
	lr := newLimitedReader(r, limit) // limit 0 = DisableMaxBufferSize (what engine.io's server passes then)
	_, err := nextPacket(lr)
	// declared length as the v4 framing defines it
	declared := uint64(form)
	if form == 126 {
		declared = uint64(hdr[1])<<8 | uint64(hdr[2])
	} else if form == 127 {
		declared = 0
		for i := 1; i < 9; i++ {
			declared = declared<<8 | uint64(hdr[i])
		}
	}
	if limit == 0 {
		verifAssert(err != ErrLimitReached, "with the limit disabled no frame is refused for its size")
	} else {
		// the largest buffer the reader was asked to fill is (a lower bound of) what was allocated for the frame
		verifAssert(int64(r.maxReq) <= limit, "no buffer larger than the configured limit is allocated for a frame")
		if declared <= uint64(limit) {
			verifAssert(err != ErrLimitReached, "a frame within the limit is not refused for its size")
		} else {
			verifAssert(err != nil, "a frame declaring more than the limit is refused")
		}
	}
	verifReach("end")
}
