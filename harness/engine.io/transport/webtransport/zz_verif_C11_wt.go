package webtransport

// C11_wt_len: WebTransport framing round-trips the length for EVERY frame length up to 4 MiB (replayable natively),
// covering all three header forms and their boundaries 125/126/65535/65536 as points of one symbolic domain.
//
//verif:unwind 6
//verif:readall summary
func verifH_C11_wt_len() { verifWTRoundTrip(1 << 22) }

// C11_wt_len_wide: same over every length below 2^40 (not natively replayable: counterexamples here are only reported
// if C11_wt_len shows them too).
//
//verif:unwind 6
//verif:readall summary
func verifH_C11_wt_len_wide() { verifWTRoundTrip(1 << 40) }

// C11_wt_alloc: see verifWTAlloc.
//
//verif:unwind 6
//verif:readall summary
func verifH_C11_wt_alloc() { verifWTAlloc(false) }

// C11_wt_alloc_wide: the same over header lengths up to 2^63 and limits up to 2^40 (counterexamples may not be replayable natively).
//
//verif:unwind 6
//verif:readall summary
func verifH_C11_wt_alloc_wide() { verifWTAlloc(true) }
