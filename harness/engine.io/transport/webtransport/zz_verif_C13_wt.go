package webtransport

// C13_wt: the WebTransport reader enforces MaxBufferSize before buffering (see verifWTAlloc).
//
//verif:unwind 6
//verif:readall summary
func verifH_C13_wt() { verifWTAlloc(false) }

// C13_wt_wide: the same over header lengths up to 2^63 and limits up to 2^40 (counterexamples may not be replayable natively).
//
//verif:unwind 6
//verif:readall summary
func verifH_C13_wt_wide() { verifWTAlloc(true) }
