package eio

// C01_upgrade_server: events in flight across the polling -> websocket upgrade, seen from C01: event A (two frames: header
// and attachment, handed to the socket in ONE Send, as the Socket.IO layer does) is still queued on the polling transport
// when the server swaps transports; event B (two frames, one Send) is emitted concurrently. On the new transport every
// frame arrives exactly once, A's frames adjacent and in order, B's frames adjacent and in order: no event is lost,
// duplicated or has another event's frame between its header and its attachment (which the peer's decoder would take
// for the attachment). All interleavings at synchronisation points.
//
//verif:unwind 40
//verif:preempt 2
//verif:visops 100
//verif:rand concrete
//verif:sleep gate
func verifH_C01_upgrade_server() { verifUpgradeFrames() }
