package eio

import (
	"time"

	"github.com/karagenc/socket.io-go/engine.io/parser"
	"github.com/karagenc/socket.io-go/engine.io/transport"
	"github.com/karagenc/socket.io-go/engine.io/transport/polling"
)

// C01_upgrade_server: events in flight across the polling -> websocket upgrade, seen from C01: event A (two frames: header
// and attachment, handed to the socket in ONE Send, as the Socket.IO layer does) is still queued on the polling transport
// when the server swaps transports; event B (two frames, one Send) is emitted concurrently. On the new transport every
// frame arrives exactly once, A's frames adjacent and in order, B's frames adjacent and in order: no event is lost,
// duplicated or has another event's frame between its header and its attachment (which the peer's decoder would take
// for the attachment). All interleavings at synchronisation points.
//
//verif:unwind 40
//verif:preempt 2
//verif:visops 100
//verif:rand concrete
//verif:sleep gate
func verifH_C01_upgrade_server() {
	cOld := transport.NewCallbacks()
	old := polling.NewServerTransport(cOld, 0, time.Hour)
	s := &serverSocket{id: "sid1", transport: old, pongChan: make(chan struct{}, 1), closeChan: make(chan struct{}), onClose: func(string) {}, debug: NewNoopDebugger()}
	s.setCallbacks(nil)
	nw := &verifRecServerTransport{name: "websocket"}
	queuedFirst := verifAnyBool()
	if queuedFirst {
		s.Send(verifNumbered('1'), verifNumbered('2')) // event A waits in the polling queue for a poll that never comes
	}
	verifThreads(true)
	if !queuedFirst {
		verifGo(func() { s.Send(verifNumbered('1'), verifNumbered('2')) })
	}
	verifGo(func() { s.Send(verifNumbered('3'), verifNumbered('4')) }) // event B
	verifGo(func() { s.upgradeTo(nw, transport.NewCallbacks()) })
	verifWaitQuiescent()
	pos := map[byte]int{}
	for _, n := range []byte{'1', '2', '3', '4'} {
		verifAssert(verifCountNumbered(nw.sent, n) == 1, "every frame emitted around the upgrade reaches the peer exactly once")
		pos[n] = -1
		for i, p := range nw.sent {
			if verifCountNumbered([]*parser.Packet{p}, n) == 1 {
				pos[n] = i
			}
		}
	}
	verifAssert(pos['2'] == pos['1']+1, "the frames of event A stay adjacent and in order")
	verifAssert(pos['4'] == pos['3']+1, "the frames of event B stay adjacent and in order")
	verifAssert(verifHeldLocks() == 0, "no mutex left held")
	verifReach("end")
}
