package eio

import (
	"github.com/karagenc/socket.io-go/engine.io/parser"
)

// verifRecClient is a recording client transport: every Send call is one batch.
type verifRecClient struct {
	name    string
	batches [][]*parser.Packet
	closed  int
	discard int
}

func (t *verifRecClient) Name() string { return t.name }
func (t *verifRecClient) Handshake() (*parser.HandshakeResponse, error) {
	return nil, nil
}
func (t *verifRecClient) Run() {}
func (t *verifRecClient) Send(packets ...*parser.Packet) {
	t.batches = append(t.batches, append([]*parser.Packet(nil), packets...))
}
func (t *verifRecClient) Discard() { t.discard++ }
func (t *verifRecClient) Close()   { t.closed++ }
