package eio

import (
	"net/http"
	"net/url"
	stdsync "sync"

	"github.com/karagenc/socket.io-go/engine.io/parser"
	"github.com/karagenc/socket.io-go/engine.io/transport"
)

// verifRecClient is a recording client transport: every Send call is one batch.
type verifRecClient struct {
	mu      stdsync.Mutex // a real transport serialises its sends: that lock is a scheduling point
	name    string
	batches [][]*parser.Packet
	closed  int
	discard int
}

func (t *verifRecClient) Name() string { return t.name }
func (t *verifRecClient) Handshake() (*parser.HandshakeResponse, error) {
	return nil, nil
}
func (t *verifRecClient) Run() {}
func (t *verifRecClient) Send(packets ...*parser.Packet) {
	t.mu.Lock()
	t.batches = append(t.batches, append([]*parser.Packet(nil), packets...))
	t.mu.Unlock()
}
func (t *verifRecClient) Discard() { t.discard++ }
func (t *verifRecClient) Close()   { t.closed++ }

// verifRecServerTransport is a recording server transport.
type verifRecServerTransport struct {
	mu       stdsync.Mutex // a real transport serialises its sends: that lock is a scheduling point
	name     string
	sent     []*parser.Packet
	closed   int
	discards int
	queued   []*parser.Packet
	onSend   func() // what writing to this transport costs (time passing, for instance)
}

func (t *verifRecServerTransport) Name() string {
	if t.name == "" {
		return "rec"
	}
	return t.name
}
func (t *verifRecServerTransport) Handshake(p *parser.Packet, w http.ResponseWriter, r *http.Request) (string, error) {
	return "", nil
}
func (t *verifRecServerTransport) PostHandshake(p *parser.Packet)                   {}
func (t *verifRecServerTransport) ServeHTTP(w http.ResponseWriter, r *http.Request) {}
func (t *verifRecServerTransport) QueuedPackets() []*parser.Packet {
	q := t.queued
	t.queued = nil
	return q
}
func (t *verifRecServerTransport) Send(p ...*parser.Packet) {
	if t.onSend != nil {
		t.onSend()
	}
	t.mu.Lock()
	t.sent = append(t.sent, p...)
	t.mu.Unlock()
}
func (t *verifRecServerTransport) Discard() { t.discards++ }
func (t *verifRecServerTransport) Close()   { t.closed++ }

func verifCallbacks() *transport.Callbacks { return transport.NewCallbacks() }

// verifRW is a recording http.ResponseWriter.
type verifRW struct {
	status int
	body   []byte
	hdr    http.Header
}

func (w *verifRW) Header() http.Header {
	if w.hdr == nil {
		w.hdr = http.Header{}
	}
	return w.hdr
}
func (w *verifRW) Write(b []byte) (int, error) {
	if w.status == 0 {
		w.status = 200
	}
	w.body = append(w.body, b...)
	return len(b), nil
}
func (w *verifRW) WriteHeader(code int) {
	if w.status == 0 {
		w.status = code
	}
}

func verifReq(method, query string) *http.Request {
	return &http.Request{Method: method, URL: &url.URL{Path: "/engine.io/", RawQuery: query}, ProtoMajor: 1, ProtoMinor: 1, Header: http.Header{}}
}

// numbered MESSAGE packets for the upgrade harnesses
func verifNumbered(n byte) *parser.Packet {
	return &parser.Packet{Type: parser.PacketTypeMessage, Data: []byte{'m', n}}
}

func verifCountNumbered(ps []*parser.Packet, n byte) int {
	c := 0
	for _, p := range ps {
		if p.Type == parser.PacketTypeMessage && len(p.Data) == 2 && p.Data[0] == 'm' && p.Data[1] == n {
			c++
		}
	}
	return c
}

