package eio

import (
	"time"

	"github.com/karagenc/socket.io-go/engine.io/parser"
)

// verifPingTransport records sends and signals every PING to the peer model.
type verifPingTransport struct {
	verifRecServerTransport
	pings chan struct{}
	nping int
}

func (t *verifPingTransport) Send(p ...*parser.Packet) {
	for _, x := range p {
		if x.Type == parser.PacketTypePing {
			t.nping++
			t.pings <- struct{}{}
		}
	}
}

// C14_server: the server's heartbeat loop under a VIRTUAL clock (discrete-event: time advances only through Sleep,
// through the peer model's answer delays and by jumping to the next timer deadline). pingInterval and pingTimeout are
// symbolic in [100ms,300ms] (the loop is scale-free; the property's 1s..3s is the same kernel), the peer answers the first
// `live` pings after symbolic delays strictly below pingTimeout and is then silently black-holed. A live peer is never
// disconnected: exactly live+1 pings are sent and no close happens while pongs keep coming in time. A dead peer is
// detected: the connection is closed with the ping-timeout reason no later than pingInterval + pingTimeout after its
// last sign of life, and not before pingTimeout has passed since the unanswered ping.
//
//verif:unwind 12
//verif:rand concrete
//verif:preempt.quick 1
//verif:preempt.thorough 2
func verifH_C14_server() {
	R := 2 // thorough keeps R and doubles the preemption bound: with R = 3 the solver leaves the feasibility of ~30 timing paths undecided
	pi := time.Duration(verifAnyInt64())
	pt := time.Duration(verifAnyInt64())
	verifAssume(pi >= 100*time.Millisecond && pi <= 300*time.Millisecond)
	verifAssume(pt >= 100*time.Millisecond && pt <= 300*time.Millisecond)
	live := verifChoose(0, R)
	tr := &verifPingTransport{pings: make(chan struct{}, 8)}
	closed := 0
	var reason Reason
	var closedAt time.Time
	verifTimers(true)
	verifThreads(true) // the peer's answer may overtake the pinging goroutine at any synchronisation point (one preemption)
	start := time.Now()
	s := newServerSocket("sid1", nil, tr, verifCallbacks(), pi, pt, NewNoopDebugger(), nil)
	s.setCallbacks(&Callbacks{OnClose: func(r Reason, err error) {
		closed++
		reason = r
		closedAt = time.Now()
	}})
	lastSign := start
	verifGo(func() {
		for k := 0; k < live; k++ {
			<-tr.pings
			d := time.Duration(verifAnyInt64())
			verifAssume(d >= 0 && d < pt)
			verifAdvance(d)
			verifAssert(closed == 0, "a peer that answers every ping within pingTimeout is never disconnected by the heartbeat")
			lastSign = time.Now()
			s.onPong()
		}
		// from here on the link is black-holed: pings are not answered any more
	})
	verifWaitQuiescent()
	if verifIsNative() {
		// real time: wait for the loop to notice the silence, and allow scheduling slack in the bounds below
		time.Sleep(pi + pt + 150*time.Millisecond)
	}
	slack := time.Duration(0)
	if verifIsNative() {
		slack = 60 * time.Millisecond
	}
	verifAssert(closed == 1, "a peer that stops answering is detected and the connection closed exactly once")
	verifAssert(reason == ReasonPingTimeout, "the close reason names the ping timeout")
	verifAssert(tr.nping == live+1, "one ping per interval: every answered ping is followed by exactly one more")
	verifAssert(closedAt.Sub(lastSign) <= pi+pt+slack, "a dead peer is detected within pingInterval + pingTimeout of its last sign of life")
	verifAssert(closedAt.Sub(lastSign) >= pt-slack, "the connection is not closed before pingTimeout has passed without a pong")
	verifAssert(tr.closed == 1, "the transport is closed on ping timeout")
	verifReach("end")
}

// C14_client: the client's watchdog (handleTimeout re-armed by every ping through the real handlePacket) under the
// virtual clock. The server's pings arrive at symbolic gaps; as long as every gap is below pingInterval+pingTimeout the
// client never disconnects; when pings stop it closes with the ping-timeout reason exactly pingInterval+pingTimeout
// after the last ping.
//
//verif:unwind 12
func verifH_C14_client() {
	R := 2
	if verifThorough() {
		R = 3
	}
	pi := time.Duration(verifAnyInt64())
	pt := time.Duration(verifAnyInt64())
	verifAssume(pi >= 100*time.Millisecond && pi <= 300*time.Millisecond)
	verifAssume(pt >= 100*time.Millisecond && pt <= 300*time.Millisecond)
	n := verifChoose(0, R)
	rec := &verifRecClient{name: "websocket"}
	closed := 0
	var reason Reason
	var closedAt time.Time
	s := &clientSocket{
		transport: rec, pingInterval: pi, pingTimeout: pt, debug: NewNoopDebugger(),
		pingChan: make(chan struct{}, 1), closeChan: make(chan struct{}),
	}
	s.callbacks.setMissing()
	s.callbacks.OnClose = func(r Reason, err error) {
		closed++
		reason = r
		closedAt = time.Now()
	}
	verifTimers(true)
	last := time.Now()
	verifGo(func() { s.handleTimeout() })
	verifGo(func() {
		for k := 0; k < n; k++ {
			gap := time.Duration(verifAnyInt64())
			verifAssume(gap >= 0 && gap < pi+pt)
			verifAdvance(gap)
			verifAssert(closed == 0, "a client that keeps receiving pings in time is never disconnected by its watchdog")
			last = time.Now()
			s.handlePacket(&parser.Packet{Type: parser.PacketTypePing})
			verifYield()
		}
	})
	verifWaitQuiescent()
	if verifIsNative() {
		time.Sleep(pi + pt + 150*time.Millisecond)
	}
	slack := time.Duration(0)
	if verifIsNative() {
		slack = 60 * time.Millisecond
	}
	verifAssert(closed == 1 && reason == ReasonPingTimeout, "when pings stop the client closes with the ping-timeout reason")
	verifAssert(closedAt.Sub(last) <= pi+pt+slack, "the dead server is detected within pingInterval + pingTimeout of the last ping")
	verifAssert(closedAt.Sub(last) >= pi+pt-slack, "and not earlier")
	verifAssert(len(rec.batches) == n, "every ping is answered with a pong")
	verifReach("end")
}

// C14_server_probe: the heartbeat of a session that is being upgraded. A candidate transport delivers the upgrade probe
// (PING "probe", answered with PONG "probe" on the candidate) at a symbolic instant before the first heartbeat ping; the
// peer then goes silent and never answers a heartbeat. The probe is no answer to a heartbeat: the dead peer is still
// detected no later than pingInterval + pingTimeout after the session started (the first heartbeat ping goes
// unanswered), with the ping-timeout reason, exactly once.
//
//verif:unwind 12
//verif:rand concrete
//verif:replay free
func verifH_C14_server_probe() {
	pi := time.Duration(verifAnyInt64())
	pt := time.Duration(verifAnyInt64())
	verifAssume(pi >= 100*time.Millisecond && pi <= 300*time.Millisecond)
	verifAssume(pt >= 100*time.Millisecond && pt <= 300*time.Millisecond)
	tr := &verifPingTransport{pings: make(chan struct{}, 8)}
	closed := 0
	var reason Reason
	var closedAt time.Time
	srv := NewServer(nil, &ServerConfig{UpgradeTimeout: time.Second})
	verifTimers(true)
	start := time.Now()
	s := newServerSocket("sid1", []string{"webtransport"}, tr, verifCallbacks(), pi, pt, NewNoopDebugger(), nil)
	s.setCallbacks(&Callbacks{OnClose: func(r Reason, err error) {
		closed++
		reason = r
		closedAt = time.Now()
	}})
	verifSettle() // the ping loop has started its first interval before any time passes
	cand := &verifRecServerTransport{name: "webtransport"}
	c := verifCallbacks()
	srv.maybeUpgrade(&verifRW{}, verifReq("GET", "EIO=4&transport=webtransport&sid=sid1"), s, "webtransport", cand, c)
	verifSettle()
	d := time.Duration(verifAnyInt64())
	verifAssume(d >= 0 && d < pi)
	verifAdvance(d)
	c.OnPacket(&parser.Packet{Type: parser.PacketTypePing, Data: []byte("probe")})
	verifSettle()
	verifAssert(len(cand.sent) >= 1 && cand.sent[0].Type == parser.PacketTypePong, "the probe is answered on the candidate")
	// silence from here on
	verifWaitQuiescent()
	if verifIsNative() {
		time.Sleep(pi + pt + 200*time.Millisecond)
	}
	slack := time.Duration(0)
	if verifIsNative() {
		slack = 80 * time.Millisecond
	}
	verifAssert(closed == 1 && reason == ReasonPingTimeout, "a peer that never answers a heartbeat is detected, once, with the ping-timeout reason")
	verifAssert(closedAt.Sub(start) <= pi+pt+slack, "no later than pingInterval + pingTimeout after the session started: an upgrade probe does not count as a heartbeat answer")
	verifReach("end")
}
