package eio

import (
	"github.com/karagenc/socket.io-go/engine.io/parser"
)

// verifBatchBody is the body of C13_batch and C01_batch (see there).
func verifBatchBody() {
	N := 4
	if verifThorough() {
		N = 6
	}
	n := verifChoose(2, N)
	pk := make([]*parser.Packet, n)
	for i := range pk {
		sz := verifAnyInt()
		verifAssume(sz >= 0 && sz <= 1<<40)
		pk[i] = &parser.Packet{Type: parser.PacketTypeMessage, IsBinary: verifAnyBool(), Data: verifAbstractBytes(sz)}
	}
	maxPayload := verifAnyInt64()
	verifAssume(maxPayload >= 1 && maxPayload <= 1<<44)
	rec := &verifRecClient{name: "polling"}
	s := &clientSocket{transport: rec, maxPayload: maxPayload, debug: NewNoopDebugger()}
	s.writeWritablePackets(pk...)

	k := 0
	for _, b := range rec.batches {
		verifAssert(len(b) > 0, "no empty batch is sent")
		for _, p := range b {
			verifAssert(k < n && p == pk[k], "batches concatenate to the input: nothing dropped, duplicated or reordered")
			k++
		}
		if len(b) > 1 {
			verifAssert(int64(parser.EncodedPayloadsLen(b...)) <= maxPayload, "a batch of several packets never exceeds maxPayload")
		}
	}
	verifAssert(k == n, "every packet is sent")
	verifReach("end")
}

