package eio

import (
	"github.com/karagenc/socket.io-go/engine.io/parser"
)

// C13_batch: the client's long-polling batcher. Packet sizes and maxPayload are symbolic over (almost) the whole int
// range, so "around each limit" is subsumed. Asserts: the batches concatenate to the input (no drop / duplicate /
// reorder), no batch is empty, and every batch of two or more packets fits the announced maxPayload.
//
//verif:unwind 16
func verifH_C13_batch() { verifBatchBody() }

// C13_batch_nolimit: with maxPayload 0 (none announced) or a non-polling transport everything goes out as one batch.
//
//verif:unwind 16
func verifH_C13_batch_nolimit() {
	n := verifChoose(1, 4)
	pk := make([]*parser.Packet, n)
	for i := range pk {
		sz := verifAnyInt()
		verifAssume(sz >= 0 && sz <= 1<<40)
		pk[i] = &parser.Packet{Type: parser.PacketTypeMessage, IsBinary: verifAnyBool(), Data: verifAbstractBytes(sz)}
	}
	rec := &verifRecClient{name: "polling"}
	maxPayload := int64(0)
	if verifAnyBool() {
		rec.name = "websocket"
		maxPayload = verifAnyInt64()
		verifAssume(maxPayload >= 0)
	}
	s := &clientSocket{transport: rec, maxPayload: maxPayload, debug: NewNoopDebugger()}
	s.writeWritablePackets(pk...)
	verifAssert(len(rec.batches) == 1 && len(rec.batches[0]) == n, "one batch when no limit applies")
	verifReach("end")
}
