package eio

import (
	"github.com/karagenc/socket.io-go/engine.io/parser"
)

// C13_batch: the client's long-polling batcher. Packet sizes and maxPayload are symbolic over (almost) the whole int
// range, so "around each limit" is subsumed. Asserts: the batches concatenate to the input (no drop / duplicate /
// reorder), no batch is empty, and every batch of two or more packets fits the announced maxPayload.
//
//verif:unwind 16
func verifH_C13_batch() {
	N := 4
	if verifThorough() {
		N = 6
	}
	n := verifChoose(2, N)
	pk := make([]*parser.Packet, n)
	for i := range pk {
		sz := verifAnyInt()
		verifAssume(sz >= 0 && sz <= 1<<40)
		pk[i] = &parser.Packet{Type: parser.PacketTypeMessage, IsBinary: verifAnyBool(), Data: verifAbstractBytes(sz)}
	}
	maxPayload := verifAnyInt64()
	verifAssume(maxPayload >= 1 && maxPayload <= 1<<44)
	rec := &verifRecClient{name: "polling"}
	s := &clientSocket{transport: rec, maxPayload: maxPayload, debug: NewNoopDebugger()}
	s.writeWritablePackets(pk...)

	k := 0
	for _, b := range rec.batches {
		verifAssert(len(b) > 0, "no empty batch is sent")
		for _, p := range b {
			verifAssert(k < n && p == pk[k], "batches concatenate to the input: nothing dropped, duplicated or reordered")
			k++
		}
		if len(b) > 1 {
			verifAssert(int64(parser.EncodedPayloadsLen(b...)) <= maxPayload, "a batch of several packets never exceeds maxPayload")
		}
	}
	verifAssert(k == n, "every packet is sent")
	verifReach("end")
}

// C13_batch_nolimit: with maxPayload 0 (none announced) or a non-polling transport everything goes out as one batch.
//
//verif:unwind 16
func verifH_C13_batch_nolimit() {
	n := verifChoose(1, 4)
	pk := make([]*parser.Packet, n)
	for i := range pk {
		sz := verifAnyInt()
		verifAssume(sz >= 0 && sz <= 1<<40)
		pk[i] = &parser.Packet{Type: parser.PacketTypeMessage, IsBinary: verifAnyBool(), Data: verifAbstractBytes(sz)}
	}
	rec := &verifRecClient{name: "polling"}
	maxPayload := int64(0)
	if verifAnyBool() {
		rec.name = "websocket"
		maxPayload = verifAnyInt64()
		verifAssume(maxPayload >= 0)
	}
	s := &clientSocket{transport: rec, maxPayload: maxPayload, debug: NewNoopDebugger()}
	s.writeWritablePackets(pk...)
	verifAssert(len(rec.batches) == 1 && len(rec.batches[0]) == n, "one batch when no limit applies")
	verifReach("end")
}
