package parser

import (
	"bytes"
)

func verifBytesEq(a, b []byte) bool {
	if len(a) != len(b) {
		return false
	}
	for i := range a {
		if a[i] != b[i] {
			return false
		}
	}
	return true
}

// C11_packet_rt: decode(encode(p)) == p for every packet type, text / binary frame / base64, payload bytes arbitrary;
// EncodedLen equals the number of bytes written; first byte is the v4 type digit (text) or 'b' (base64).
//
//verif:unwind 40
func verifH_C11_packet_rt() {
	L := 3
	if verifThorough() {
		L = 6
	}
	n := verifChoose(0, L)
	data := verifBytes(n)
	tb := verifAnyByte()
	verifAssume(tb <= byte(packetTypeMax))
	typ := PacketType(tb)
	isBin := verifAnyBool()
	supports := verifAnyBool()
	p, err := NewPacket(typ, isBin, data)
	if err != nil {
		verifAssert(isBin && typ != PacketTypeMessage, "NewPacket rejects only binary non-message packets")
		return
	}
	var buf bytes.Buffer
	err = p.Encode(&buf, supports)
	verifAssert(err == nil, "encode into a buffer does not fail")
	enc := buf.Bytes()
	verifAssert(len(enc) == p.EncodedLen(supports), "EncodedLen equals bytes written")
	if !isBin {
		verifAssert(len(enc) == n+1 && enc[0] == '0'+tb, "text form is <type digit><data>")
	} else if !supports {
		verifAssert(enc[0] == 'b', "binary without binary support is 'b' + base64")
	} else {
		verifAssert(verifBytesEq(enc, data), "binary frame is the raw payload")
	}
	q, err := Decode(bytes.NewReader(enc), isBin && supports)
	verifAssert(err == nil, "decoding an encoded packet does not fail")
	if err != nil {
		return
	}
	verifAssert(q.Type == p.Type, "type round-trips")
	verifAssert(q.IsBinary == p.IsBinary, "binary flag round-trips")
	verifAssert(verifBytesEq(q.Data, data), "payload round-trips byte-identical")
	verifReach("end")
}

// C11_payload_rt: EncodePayloads -> DecodePayloads reproduces the packet sequence (text data free of 0x1e).
//
//verif:unwind 40
func verifH_C11_payload_rt() {
	K, L := 2, 2
	if verifThorough() {
		K, L = 3, 3
	}
	k := verifChoose(0, K) // zero packets is what a timed-out long poll answers with
	pkts := make([]*Packet, k)
	for i := range pkts {
		n := verifChoose(0, L)
		data := verifBytes(n)
		isBin := verifAnyBool()
		tb := byte(PacketTypeMessage)
		if !isBin {
			tb = verifAnyByte()
			verifAssume(tb <= byte(packetTypeMax))
			for _, c := range data {
				verifAssume(c != payloadDelimiter)
			}
		}
		pkts[i] = &Packet{IsBinary: isBin, Type: PacketType(tb), Data: data}
	}
	var buf bytes.Buffer
	err := EncodePayloads(&buf, pkts...)
	verifAssert(err == nil, "EncodePayloads does not fail")
	enc := buf.Bytes()
	verifAssert(len(enc) == EncodedPayloadsLen(pkts...), "EncodedPayloadsLen equals bytes written")
	got, err := DecodePayloads(bytes.NewReader(enc))
	if k == 0 {
		// Engine.IO v4 has no empty payload: nothing is written, the advertised length is 0, and the decoder refuses it
		verifAssert(len(enc) == 0 && err != nil, "zero packets encode to nothing, which is not a payload")
		verifReach("empty")
		return
	}
	verifAssert(err == nil, "decoding an encoded payload does not fail")
	if err != nil {
		return
	}
	verifAssert(len(got) == k, "same number of packets")
	if len(got) != k {
		return
	}
	for i := range pkts {
		verifAssert(got[i].Type == pkts[i].Type && got[i].IsBinary == pkts[i].IsBinary, "type and binary flag of each packet round-trip")
		verifAssert(verifBytesEq(got[i].Data, pkts[i].Data), "data of each packet round-trips")
	}
	verifReach("end")
}

// C11_decode_total: decoding arbitrary bytes never panics: it yields packets or an error.
//
//verif:unwind 40
func verifH_C11_decode_total() {
	L := 4
	if verifThorough() {
		L = 7
	}
	n := verifChoose(0, L)
	data := verifBytes(n)
	which := verifChoose(0, 2)
	switch which {
	case 0:
		p, err := decode(data, false)
		verifAssert((p == nil) != (err == nil) || (p != nil && err != nil), "decode returns a packet or an error")
	case 1:
		p, err := decode(data, true)
		verifAssert(p != nil && err == nil, "binary frame always decodes")
	case 2:
		ps, err := DecodePayloads(bytes.NewReader(data))
		if err == nil {
			verifAssert(len(ps) >= 1, "a payload holds at least one packet")
		}
	}
	verifReach("end")
}
