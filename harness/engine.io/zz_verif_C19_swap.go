package eio

// C19_swap_server: "a packet handed to the send path never sits in an internal queue" across the transport swap: messages
// sent through the socket while the real upgradeTo runs (and while a poll may be pending on the real polling transport),
// under all interleavings at synchronisation points: none is left behind in the queue of the discarded polling
// transport - every one went out with the poll answer or on the new transport (kernel shared with C07_swap_server).
//
//verif:unwind 40
//verif:preempt 2
//verif:visops 100
//verif:rand concrete
//verif:sleep gate
func verifH_C19_swap_server() { verifSwapServerBody() }
