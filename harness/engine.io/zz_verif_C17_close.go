package eio

// C17_close_race: a valid polling handshake racing Server.Close in every order at synchronisation points: once Close
// has returned the server holds no session that is not closed.
//
//verif:unwind 40
//verif:rand concrete
//verif:sleep gate
//verif:preempt 2
func verifH_C17_close_race() {
	srv := NewServer(nil, nil)
	w := &verifRW{}
	verifThreads(true)
	verifGo(func() { srv.ServeHTTP(w, verifReq("GET", "EIO=4&transport=polling")) })
	verifGo(func() { srv.Close() })
	verifWaitQuiescent()
	srv.store.mu.RLock()
	n := len(srv.store.sockets)
	srv.store.mu.RUnlock()
	verifAssert(n == 0, "after Close has returned no live session remains on the server")
	verifAssert(w.status == 200 || w.status == 503, "a handshake racing Close is either served or refused with 503")
	verifReach("end")
}
