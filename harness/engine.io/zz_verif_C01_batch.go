package eio

// C01_batch: the client -> server leg of the pipeline over long-polling: the batcher that cuts the packets of an emit (an
// event header plus its attachments, or several events) into POST bodies. Seen from C01: every packet handed to the
// socket is sent exactly once, in order, and no body of several packets exceeds the maxPayload the server announced -
// a body one byte too large is refused by the server with 413 and the connection dropped, event and all. Packet sizes
// and maxPayload are symbolic (same kernel as C13_batch).
//
//verif:unwind 16
func verifH_C01_batch() { verifBatchBody() }
