package eio

import "encoding/base64"

// C17_sid: two generated ids whose sequence numbers differ by any d in (0, 2^24), with ARBITRARY random bytes, are
// different (the real base64 URL encoder is executed from SSA over the symbolic bytes); invalid sizes are refused and
// the id has the advertised length.
//
//verif:unwind 40
func verifH_C17_sid() {
	s1 := verifAnyUint32()
	d := verifAnyUint32()
	verifAssume(d > 0 && d < 1<<24)
	base64IDSeq = s1
	id1, err1 := GenerateBase64ID(Base64IDSize)
	base64IDSeq = s1 + d
	id2, err2 := GenerateBase64ID(Base64IDSize)
	verifAssert(err1 == nil && err2 == nil, "id generation does not fail")
	verifAssert(len(id1) == base64.URLEncoding.EncodedLen(Base64IDSize) && len(id2) == len(id1), "ids have the advertised length")
	verifAssert(id1 != id2, "ids generated within 2^24 of each other differ whatever the random bytes")
	sz := verifChoose(0, 5)
	_, err := GenerateBase64ID(sz)
	verifAssert((err != nil) == (sz <= 4), "sizes that leave no room for the sequence number are refused")
	verifReach("end")
}

// C17_sid_overlap: a generated id that is already in the store is never handed out; newSocket refuses to overwrite a
// live session.
//
//verif:unwind 40
//verif:rand concrete
//verif:sleep gate
func verifH_C17_sid_overlap() {
	srv := NewServer(nil, nil)
	w := &verifRW{}
	srv.ServeHTTP(w, verifReq("GET", "EIO=4&transport=polling"))
	live := ""
	var liveSock *serverSocket
	for sid, so := range srv.store.sockets {
		live, liveSock = sid, so
	}
	verifAssert(live != "", "handshake created a session")
	w2 := &verifRW{}
	rec := &verifRecServerTransport{}
	_ = rec.closed // whether the refused candidate.s transport is closed is not part of the property
	got := srv.newSocket(w2, live, nil, verifCallbacks(), rec)
	verifAssert(got == nil && w2.status == 500, "an overlapping session id is refused with 500")
	verifAssert(srv.store.sockets[live] == liveSock, "the live session is not overwritten")
	verifReach("end")
}
