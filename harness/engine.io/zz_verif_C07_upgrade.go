package eio

import (
	"time"

	"github.com/karagenc/socket.io-go/engine.io/parser"
	"github.com/karagenc/socket.io-go/engine.io/transport"
)

// C07_swap_server: the server-side transport swap. Old transport = the REAL long-polling transport, new = a recording
// one. One goroutine sends two numbered messages through the socket, one runs the real upgradeTo, one plays a poll request
// that is pending on the old transport, under all interleavings at synchronisation points. Every message is delivered
// exactly once - in the poll response, or on the new transport - none stays behind in the old transport's queue, the
// messages that took the same route keep their order, and after the swap the socket sends on the new transport.
//
//verif:unwind 40
//verif:preempt 2
//verif:visops 100
//verif:rand concrete
//verif:sleep gate
func verifH_C07_swap_server() { verifSwapServerBody() }

// C07_candidate_server: the server's handling of the candidate transport during an upgrade (the real maybeUpgrade,
// entered on its WebTransport branch so that the candidate can be a recording transport). What the candidate delivers is
// symbolic: the probe PING, then UPGRADE; or a packet that is neither; or nothing until the upgrade timer fires. A failed
// or timed-out attempt closes ONLY the candidate: the socket is not closed, keeps its transport and keeps working.
//
//verif:unwind 40
//verif:rand concrete
//verif:sleep gate
func verifH_C07_candidate_server() {
	srv := NewServer(nil, &ServerConfig{UpgradeTimeout: time.Second})
	old := &verifRecServerTransport{name: "polling"}
	closedSock := 0
	s := newServerSocket("sid1", nil, old, transport.NewCallbacks(), time.Hour, time.Hour, NewNoopDebugger(), nil)
	s.setCallbacks(&Callbacks{OnClose: func(Reason, error) { closedSock++ }})
	cand := &verifRecServerTransport{name: "webtransport"}
	c := transport.NewCallbacks()
	verifTimers(true)
	srv.maybeUpgrade(&verifRW{}, verifReq("GET", "EIO=4&transport=webtransport&sid=sid1"), s, "webtransport", cand, c)
	scenario := verifChoose(0, 3)
	switch scenario {
	case 0: // probe, then upgrade
		c.OnPacket(&parser.Packet{Type: parser.PacketTypePing, Data: []byte("probe")})
		verifWaitQuiescent2()
		verifAssert(len(cand.sent) == 1 && cand.sent[0].Type == parser.PacketTypePong && string(cand.sent[0].Data) == "probe", "the probe ping is answered with pong 'probe' on the candidate")
		// a burst is still queued on the old transport, and writing it to the new one takes ANY amount of time (a slow
		// reader): the upgrade was in time, so the upgrade timer must not touch the new transport whatever the flush takes
		old.queued = []*parser.Packet{{Type: parser.PacketTypeNoop}, verifNumbered('7'), {Type: parser.PacketTypePing}}
		slow := time.Duration(verifAnyInt64())
		verifAssume(slow >= 0 && slow <= 3*srv.upgradeTimeout)
		cand.onSend = func() {
			verifSettle() // goroutines that are ready to run do so before time moves on
			verifAdvance(slow)
		}
		c.OnPacket(&parser.Packet{Type: parser.PacketTypeUpgrade})
		cand.onSend = nil
		verifAssert(s.TransportName() == "webtransport", "UPGRADE on the candidate completes the swap")
		verifAssert(old.discards == 1 && closedSock == 0, "the old transport is discarded, the socket stays open")
		verifWaitQuiescent()
		if verifIsNative() {
			time.Sleep(50 * time.Millisecond)
		}
		verifAssert(cand.closed == 0 && closedSock == 0, "an upgrade completed in time is not undone by the upgrade timer, however long the backlog takes to flush")
		verifAssert(verifCountNumbered(cand.sent, '7') == 1, "the backlog of the old transport is delivered on the new one")
		pings, noops := 0, 0
		for _, p := range cand.sent {
			if p.Type == parser.PacketTypePing {
				pings++
			}
			if p.Type == parser.PacketTypeNoop {
				noops++
			}
		}
		verifAssert(pings == 1, "a heartbeat ping that was waiting in the polling queue is carried over too (dropping it would close the upgraded connection one ping timeout later)")
		verifAssert(noops == 0, "the NOOP that only served to end the poll cycle is not")
	case 1: // a packet that is not part of the probe exchange
		tb := verifAnyByte()
		verifAssume(tb <= 6 && tb != byte(parser.PacketTypePing) && tb != byte(parser.PacketTypeUpgrade))
		c.OnPacket(&parser.Packet{Type: parser.PacketType(tb)})
		verifAssert(cand.closed >= 1, "a candidate that misbehaves is closed")
	case 2: // the candidate's connection dies
		c.OnClose("webtransport", nil)
	case 3: // nothing arrives: the upgrade timer fires
	}
	verifWaitQuiescent()
	if scenario != 0 {
		verifAssert(closedSock == 0, "a failed or timed-out upgrade attempt does not close the connection")
		verifAssert(s.TransportName() == "polling" && old.closed == 0 && old.discards == 0, "the connection keeps working on its original transport")
		s.Send(verifNumbered('9'))
		verifAssert(verifCountNumbered(old.sent, '9') == 1, "a later message still travels on the original transport")
		if scenario == 3 {
			verifAssert(cand.closed >= 1, "an upgrade that times out closes the candidate transport")
		}
	}
	verifReach("end")
}

// verifWaitQuiescent2 lets helper goroutines (the NOOP sender) run.
func verifWaitQuiescent2() { verifSettle() }

// C07_client: the client side (real tryUpgradeTo / finishUpgradeTo). The candidate answers the probe with pong 'probe',
// with another pong, with another packet, or not at all (upgrade timer). Success: the UPGRADE packet is the first thing
// sent on the new transport after the probe, the old transport is discarded once and later messages use the new one.
// Failure or timeout: the socket is not closed, keeps its original transport and keeps working; only the candidate is closed.
//
//verif:unwind 40
//verif:sleep gate
func verifH_C07_client() { verifClientUpgradeBody() }

// C07_client_race: a message sent from another goroutine exactly while the client swaps transports (real
// finishUpgradeTo vs real Send, all interleavings at synchronisation points): it is sent exactly once - on the old
// transport before the swap or on the new one after it - and nothing precedes the UPGRADE packet on the new transport
// (the server would take any other first packet for a failed probe and close the candidate).
//
//verif:unwind 40
//verif:preempt 2
//verif:sleep gate
func verifH_C07_client_race() {
	old := &verifRecClient{name: "polling"}
	cand := &verifRecClient{name: "websocket"}
	s := &clientSocket{
		transport: old, upgradeTimeout: time.Second, debug: NewNoopDebugger(),
		pingChan: make(chan struct{}, 1), closeChan: make(chan struct{}),
		upgradeDone: func(string) {},
	}
	s.callbacks.setMissing()
	c := transport.NewCallbacks()
	verifThreads(true)
	verifGo(func() { s.finishUpgradeTo(cand, c) })
	verifGo(func() { s.Send(verifNumbered('7')) })
	verifWaitQuiescent()
	n := 0
	for _, b := range old.batches {
		n += verifCountNumbered(b, '7')
	}
	firstOnNew := parser.PacketTypeUpgrade
	for i, b := range cand.batches {
		n += verifCountNumbered(b, '7')
		if i == 0 && len(b) > 0 {
			firstOnNew = b[0].Type
		}
	}
	verifAssert(n == 1, "a message sent while the transports are swapped is sent exactly once")
	verifAssert(len(cand.batches) >= 1 && firstOnNew == parser.PacketTypeUpgrade, "UPGRADE is the first packet on the new transport, whatever else is being sent")
	verifAssert(verifHeldLocks() == 0, "no mutex left held")
	verifReach("end")
}
