package eio

import (
	"errors"
	"time"

	"github.com/karagenc/socket.io-go/engine.io/parser"
	"github.com/karagenc/socket.io-go/engine.io/transport"
)

var errVerifCut = errors.New("verif: connection reset by peer")

// C06_eio_shutdown: the Engine.IO leg of "every connection end is reported exactly once and leaves nothing on the
// server": a handshake (whose application callback takes its time: it yields) races Server.Close under all
// interleavings at synchronisation points. Every session the application was told about (its NewSocketCallback ran)
// gets its OnClose exactly once, and after both have finished the session store is empty.
//
//verif:unwind 40
//verif:rand concrete
//verif:sleep gate
//verif:preempt 2
func verifH_C06_eio_shutdown() {
	announced, closes := 0, 0
	srv := NewServer(func(socket ServerSocket) *Callbacks {
		announced++
		verifYield() // the application's callback is running while the server is being closed
		return &Callbacks{OnClose: func(Reason, error) { closes++ }}
	}, nil)
	w := &verifRW{}
	verifThreads(true)
	verifGo(func() { srv.ServeHTTP(w, verifReq("GET", "EIO=4&transport=polling")) })
	verifGo(func() { srv.Close() })
	verifWaitQuiescent()
	srv.store.mu.RLock()
	n := len(srv.store.sockets)
	srv.store.mu.RUnlock()
	verifAssert(n == 0, "after the shutdown nothing of the connection is left in the session store")
	verifAssert(closes == announced, "every session the application was told about is reported closed exactly once")
	verifReach("end")
}

// C06_eio_cut_during_upgrade: the connection is cut while the server, handling the UPGRADE packet, is writing the backlog
// of the polling transport to the new transport: the new transport reports its death (its close callback, with or
// without an error) from inside that write. The end of the connection is still reported - the socket's OnClose runs
// exactly once, with the transport-close / transport-error reason - it does not linger until a heartbeat times out.
//
//verif:unwind 30
//verif:rand concrete
//verif:sleep gate
func verifH_C06_eio_cut_during_upgrade() {
	old := &verifRecServerTransport{name: "polling"}
	old.queued = []*parser.Packet{verifNumbered('1'), verifNumbered('2')}
	closes := 0
	var reason Reason
	s := newServerSocket("sid1", []string{"websocket"}, old, transport.NewCallbacks(), time.Hour, time.Hour, NewNoopDebugger(), nil)
	s.setCallbacks(&Callbacks{OnClose: func(r Reason, err error) {
		closes++
		reason = r
	}})
	nw := &verifRecServerTransport{name: "websocket"}
	c := transport.NewCallbacks()
	withErr := verifAnyBool()
	atPacket := verifChoose(1, 2) // the write of which backlog packet finds the connection gone
	n := 0
	nw.onSend = func() {
		n++
		if n == atPacket {
			if withErr {
				c.OnClose("websocket", errVerifCut)
			} else {
				c.OnClose("websocket", nil)
			}
		}
	}
	s.upgradeTo(nw, c)
	verifWaitQuiescent()
	verifAssert(closes == 1, "a connection cut while the backlog is flushed during the upgrade is reported closed, exactly once")
	if withErr {
		verifAssert(reason == ReasonTransportError, "with the transport's error: transport error")
	} else {
		verifAssert(reason == ReasonTransportClose, "without an error: transport close")
	}
	verifReach("end")
}
