package eio

// C06_eio_shutdown: the Engine.IO leg of "every connection end is reported exactly once and leaves nothing on the
// server": a handshake (whose application callback takes its time: it yields) races Server.Close under all
// interleavings at synchronisation points. Every session the application was told about (its NewSocketCallback ran)
// gets its OnClose exactly once, and after both have finished the session store is empty.
//
//verif:unwind 40
//verif:rand concrete
//verif:sleep gate
//verif:preempt 2
func verifH_C06_eio_shutdown() {
	announced, closes := 0, 0
	srv := NewServer(func(socket ServerSocket) *Callbacks {
		announced++
		verifYield() // the application's callback is running while the server is being closed
		return &Callbacks{OnClose: func(Reason, error) { closes++ }}
	}, nil)
	w := &verifRW{}
	verifThreads(true)
	verifGo(func() { srv.ServeHTTP(w, verifReq("GET", "EIO=4&transport=polling")) })
	verifGo(func() { srv.Close() })
	verifWaitQuiescent()
	srv.store.mu.RLock()
	n := len(srv.store.sockets)
	srv.store.mu.RUnlock()
	verifAssert(n == 0, "after the shutdown nothing of the connection is left in the session store")
	verifAssert(closes == announced, "every session the application was told about is reported closed exactly once")
	verifReach("end")
}
