package eio

import (
	"time"

	"github.com/karagenc/socket.io-go/engine.io/parser"
	"github.com/karagenc/socket.io-go/engine.io/transport"
)

// C16_G8_eio_serversocket: Send / Close / onPong / TransportName / an incoming CLOSE packet / an upgrade racing on one
// Engine.IO server socket created by the real newServerSocket (its ping loop is running; transports are recording).
//
//verif:unwind 30
//verif:preempt.quick 1
//verif:preempt.thorough 2
//verif:visops 120
//verif:rand concrete
//verif:sleep gate
func verifH_C16_G8_eio_serversocket() {
	old := &verifRecServerTransport{name: "polling"}
	cb := transport.NewCallbacks()
	closed := 0
	s := newServerSocket("sid1", []string{"websocket"}, old, cb, time.Hour, time.Hour, NewNoopDebugger(), nil)
	s.setCallbacks(&Callbacks{OnClose: func(Reason, error) { closed++ }})
	nw := &verifRecServerTransport{name: "websocket"}
	op := func(k int) {
		switch k {
		case 0:
			s.Send(verifNumbered('1'))
		case 1:
			s.Close()
		case 2:
			s.onPong()
		case 3:
			s.TransportName()
		case 4:
			cb.OnPacket(&parser.Packet{Type: parser.PacketTypeClose})
		case 5:
			s.upgradeTo(nw, transport.NewCallbacks())
		case 6:
			cb.OnClose("polling", nil)
		}
	}
	a, b := verifChoose(0, 6), verifChoose(0, 6)
	verifThreads(true)
	verifSettle()
	parked := verifBlocked() // the ping loop sleeps between pings
	verifGo(func() { op(a) })
	verifGo(func() { op(b) })
	verifWaitQuiescent()
	verifAssert(verifBlocked() <= parked, "no goroutine left blocked: Engine.IO server socket")
	verifAssert(verifHeldLocks() == 0, "no mutex left held: Engine.IO server socket")
	verifAssert(closed <= 1, "the close callback runs at most once")
	verifReach("end")
}
