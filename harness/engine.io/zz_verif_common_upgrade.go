package eio

import (
	"time"

	"github.com/karagenc/socket.io-go/engine.io/parser"
	"github.com/karagenc/socket.io-go/engine.io/transport"
	"github.com/karagenc/socket.io-go/engine.io/transport/polling"
)

// verifUpgradeFrames is the body shared by C01_upgrade_server and C02_upgrade_server (see there).
func verifUpgradeFrames() {
	cOld := transport.NewCallbacks()
	old := polling.NewServerTransport(cOld, 0, time.Hour)
	s := &serverSocket{id: "sid1", transport: old, pongChan: make(chan struct{}, 1), closeChan: make(chan struct{}), onClose: func(string) {}, debug: NewNoopDebugger()}
	s.setCallbacks(nil)
	nw := &verifRecServerTransport{name: "websocket"}
	queuedFirst := verifAnyBool()
	if queuedFirst {
		s.Send(verifNumbered('1'), verifNumbered('2')) // event A waits in the polling queue for a poll that never comes
	}
	verifThreads(true)
	if !queuedFirst {
		verifGo(func() { s.Send(verifNumbered('1'), verifNumbered('2')) })
	}
	verifGo(func() { s.Send(verifNumbered('3'), verifNumbered('4')) }) // event B
	verifGo(func() { s.upgradeTo(nw, transport.NewCallbacks()) })
	verifWaitQuiescent()
	pos := map[byte]int{}
	for _, n := range []byte{'1', '2', '3', '4'} {
		verifAssert(verifCountNumbered(nw.sent, n) == 1, "every frame emitted around the upgrade reaches the peer exactly once")
		pos[n] = -1
		for i, p := range nw.sent {
			if verifCountNumbered([]*parser.Packet{p}, n) == 1 {
				pos[n] = i
			}
		}
	}
	verifAssert(pos['2'] == pos['1']+1, "the frames of event A stay adjacent and in order")
	verifAssert(pos['4'] == pos['3']+1, "the frames of event B stay adjacent and in order")
	verifAssert(verifHeldLocks() == 0, "no mutex left held")
	verifReach("end")
}
