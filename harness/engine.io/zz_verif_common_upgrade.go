package eio

import (
	"bytes"
	"time"

	"github.com/karagenc/socket.io-go/engine.io/parser"
	"github.com/karagenc/socket.io-go/engine.io/transport"
	"github.com/karagenc/socket.io-go/engine.io/transport/polling"
)

// verifUpgradeFrames is the body shared by C01_upgrade_server and C02_upgrade_server (see there).
func verifUpgradeFrames() {
	cOld := transport.NewCallbacks()
	old := polling.NewServerTransport(cOld, 0, time.Hour)
	s := &serverSocket{id: "sid1", transport: old, pongChan: make(chan struct{}, 1), closeChan: make(chan struct{}), onClose: func(string) {}, debug: NewNoopDebugger()}
	s.setCallbacks(nil)
	nw := &verifRecServerTransport{name: "websocket"}
	queuedFirst := verifAnyBool()
	if queuedFirst {
		s.Send(verifNumbered('1'), verifNumbered('2')) // event A waits in the polling queue for a poll that never comes
	}
	verifThreads(true)
	if !queuedFirst {
		verifGo(func() { s.Send(verifNumbered('1'), verifNumbered('2')) })
	}
	verifGo(func() { s.Send(verifNumbered('3'), verifNumbered('4')) }) // event B
	verifGo(func() { s.upgradeTo(nw, transport.NewCallbacks()) })
	verifWaitQuiescent()
	pos := map[byte]int{}
	for _, n := range []byte{'1', '2', '3', '4'} {
		verifAssert(verifCountNumbered(nw.sent, n) == 1, "every frame emitted around the upgrade reaches the peer exactly once")
		pos[n] = -1
		for i, p := range nw.sent {
			if verifCountNumbered([]*parser.Packet{p}, n) == 1 {
				pos[n] = i
			}
		}
	}
	verifAssert(pos['2'] == pos['1']+1, "the frames of event A stay adjacent and in order")
	verifAssert(pos['4'] == pos['3']+1, "the frames of event B stay adjacent and in order")
	verifAssert(verifHeldLocks() == 0, "no mutex left held")
	verifReach("end")
}

// verifSwapServerBody is the body shared by C07_swap_server and C19_swap_server (see there).
func verifSwapServerBody() {
	cOld := transport.NewCallbacks()
	old := polling.NewServerTransport(cOld, 0, time.Hour)
	s := &serverSocket{id: "sid1", transport: old, pongChan: make(chan struct{}, 1), closeChan: make(chan struct{}), onClose: func(string) {}, debug: NewNoopDebugger()}
	s.setCallbacks(nil)
	nw := &verifRecServerTransport{name: "websocket"}
	withPoll := verifAnyBool()
	rw := &verifRW{}
	verifThreads(true)
	verifGo(func() {
		s.Send(verifNumbered('1'))
		s.Send(verifNumbered('2'))
	})
	verifGo(func() { s.upgradeTo(nw, transport.NewCallbacks()) })
	if withPoll {
		verifGo(func() { old.ServeHTTP(rw, verifReq("GET", "EIO=4&transport=polling&sid=sid1")) })
	}
	verifWaitQuiescent()
	var polled []*parser.Packet
	if len(rw.body) > 0 {
		ps, err := parser.DecodePayloads(bytes.NewReader(rw.body))
		verifAssert(err == nil, "the poll response is a valid payload")
		polled = ps
	}
	left := old.QueuedPackets()
	for _, n := range []byte{'1', '2'} {
		verifAssert(verifCountNumbered(polled, n)+verifCountNumbered(nw.sent, n) == 1, "every message sent around a transport upgrade is delivered exactly once")
		verifAssert(verifCountNumbered(left, n) == 0, "no message stays behind in the discarded transport")
	}
	if verifCountNumbered(polled, '1')+verifCountNumbered(polled, '2') == 2 {
		verifAssert(polled[0].Data[1] == '1' || (len(polled) > 1 && polled[0].Type != parser.PacketTypeMessage), "messages on the same route keep their order")
	}
	if verifCountNumbered(nw.sent, '1')+verifCountNumbered(nw.sent, '2') == 2 {
		i1, i2 := -1, -1
		for i, p := range nw.sent {
			if verifCountNumbered([]*parser.Packet{p}, '1') == 1 {
				i1 = i
			}
			if verifCountNumbered([]*parser.Packet{p}, '2') == 1 {
				i2 = i
			}
		}
		verifAssert(i1 < i2, "messages on the same route keep their order")
	}
	verifAssert(s.TransportName() == "websocket", "after the swap the socket uses the new transport")
	s.Send(verifNumbered('3'))
	verifAssert(verifCountNumbered(nw.sent, '3') == 1, "a message sent after the upgrade travels on the new transport")
	verifAssert(verifHeldLocks() == 0, "no mutex left held")
	verifReach("end")
}

// verifClientUpgradeBody is the body shared by C07_client and C16_G9_eio_client_upgrade (see there).
func verifClientUpgradeBody() {
	old := &verifRecClient{name: "polling"}
	cand := &verifRecClient{name: "websocket"}
	closedSock := 0
	upgraded := ""
	s := &clientSocket{
		transport: old, upgradeTimeout: time.Second, debug: NewNoopDebugger(),
		pingChan: make(chan struct{}, 1), closeChan: make(chan struct{}),
	}
	// the application's UpgradeDone handler calls back into the socket (what lifecycle handlers may do)
	nameSeen := ""
	s.upgradeDone = func(name string) {
		upgraded = name
		nameSeen = s.TransportName()
		s.Send(&parser.Packet{Type: parser.PacketTypeMessage, Data: []byte("from-handler")})
	}
	s.callbacks.setMissing()
	s.callbacks.OnClose = func(Reason, error) { closedSock++ }
	c := transport.NewCallbacks()
	scenario := verifChoose(0, 3)
	verifTimers(true)
	ok := false
	finished := false
	verifGo(func() {
		ok = s.tryUpgradeTo(cand, c)
		finished = true
	})
	verifSettle()
	verifAssert(len(cand.batches) == 1 && cand.batches[0][0].Type == parser.PacketTypePing && string(cand.batches[0][0].Data) == "probe", "the candidate is probed with ping 'probe'")
	switch scenario {
	case 0:
		c.OnPacket(&parser.Packet{Type: parser.PacketTypePong, Data: []byte("probe")})
	case 1:
		c.OnPacket(&parser.Packet{Type: parser.PacketTypePong, Data: []byte("other")})
	case 2:
		tb := verifAnyByte()
		verifAssume(tb <= 6 && tb != byte(parser.PacketTypePong))
		c.OnPacket(&parser.Packet{Type: parser.PacketType(tb)})
	case 3: // silence: the upgrade timer fires
	}
	verifWaitQuiescent()
	if verifIsNative() && scenario != 0 {
		time.Sleep(1100 * time.Millisecond) // the real upgrade timer (1s) ends a failed attempt
	}
	verifAssert(finished, "the upgrade attempt terminates")
	verifAssert(closedSock == 0, "an upgrade attempt never closes the connection")
	verifAssert(verifHeldLocks() == 0 && verifBlocked() == 0, "no mutex is left held and nothing is blocked, also when the UpgradeDone handler uses the socket")
	if upgraded != "" {
		verifAssert(nameSeen == "websocket", "inside UpgradeDone the socket already reports the new transport")
	}
	if scenario == 0 {
		verifAssert(ok && s.TransportName() == "websocket" && upgraded == "websocket", "a confirmed probe completes the upgrade")
		verifAssert(len(cand.batches) == 3 && cand.batches[1][0].Type == parser.PacketTypeUpgrade, "UPGRADE is the first packet on the new transport (the UpgradeDone handler's own message follows it)")
		verifAssert(old.discard == 1 && old.closed == 0, "the old transport is discarded, not closed")
		s.Send(verifNumbered('5'))
		verifAssert(len(cand.batches) == 4 && verifCountNumbered(cand.batches[3], '5') == 1, "later messages use the new transport")
	} else {
		verifAssert(s.TransportName() == "polling" && old.discard == 0 && old.closed == 0, "a failed upgrade leaves the original transport in place")
		verifAssert(cand.closed >= 1, "only the candidate transport is closed")
		s.Send(verifNumbered('5'))
		verifAssert(len(old.batches) == 1 && verifCountNumbered(old.batches[0], '5') == 1, "the connection keeps working on its original transport")
		if scenario == 3 {
			verifAssert(!ok, "a timed-out attempt reports failure")
		}
	}
	verifReach("end")
}
