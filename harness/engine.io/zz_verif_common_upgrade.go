package eio

import (
	"bytes"
	"time"

	"github.com/karagenc/socket.io-go/engine.io/parser"
	"github.com/karagenc/socket.io-go/engine.io/transport"
	"github.com/karagenc/socket.io-go/engine.io/transport/polling"
)

// verifUpgradeFrames is the body shared by C01_upgrade_server and C02_upgrade_server (see there).
func verifUpgradeFrames() {
	cOld := transport.NewCallbacks()
	old := polling.NewServerTransport(cOld, 0, time.Hour)
	s := &serverSocket{id: "sid1", transport: old, pongChan: make(chan struct{}, 1), closeChan: make(chan struct{}), onClose: func(string) {}, debug: NewNoopDebugger()}
	s.setCallbacks(nil)
	nw := &verifRecServerTransport{name: "websocket"}
	queuedFirst := verifAnyBool()
	if queuedFirst {
		s.Send(verifNumbered('1'), verifNumbered('2')) // event A waits in the polling queue for a poll that never comes
	}
	verifThreads(true)
	if !queuedFirst {
		verifGo(func() { s.Send(verifNumbered('1'), verifNumbered('2')) })
	}
	verifGo(func() { s.Send(verifNumbered('3'), verifNumbered('4')) }) // event B
	verifGo(func() { s.upgradeTo(nw, transport.NewCallbacks()) })
	verifWaitQuiescent()
	pos := map[byte]int{}
	for _, n := range []byte{'1', '2', '3', '4'} {
		verifAssert(verifCountNumbered(nw.sent, n) == 1, "every frame emitted around the upgrade reaches the peer exactly once")
		pos[n] = -1
		for i, p := range nw.sent {
			if verifCountNumbered([]*parser.Packet{p}, n) == 1 {
				pos[n] = i
			}
		}
	}
	verifAssert(pos['2'] == pos['1']+1, "the frames of event A stay adjacent and in order")
	verifAssert(pos['4'] == pos['3']+1, "the frames of event B stay adjacent and in order")
	verifAssert(verifHeldLocks() == 0, "no mutex left held")
	verifReach("end")
}

// verifSwapServerBody is the body shared by C07_swap_server and C19_swap_server (see there).
func verifSwapServerBody() {
	cOld := transport.NewCallbacks()
	old := polling.NewServerTransport(cOld, 0, time.Hour)
	s := &serverSocket{id: "sid1", transport: old, pongChan: make(chan struct{}, 1), closeChan: make(chan struct{}), onClose: func(string) {}, debug: NewNoopDebugger()}
	s.setCallbacks(nil)
	nw := &verifRecServerTransport{name: "websocket"}
	withPoll := verifAnyBool()
	rw := &verifRW{}
	verifThreads(true)
	verifGo(func() {
		s.Send(verifNumbered('1'))
		s.Send(verifNumbered('2'))
	})
	verifGo(func() { s.upgradeTo(nw, transport.NewCallbacks()) })
	if withPoll {
		verifGo(func() { old.ServeHTTP(rw, verifReq("GET", "EIO=4&transport=polling&sid=sid1")) })
	}
	verifWaitQuiescent()
	var polled []*parser.Packet
	if len(rw.body) > 0 {
		ps, err := parser.DecodePayloads(bytes.NewReader(rw.body))
		verifAssert(err == nil, "the poll response is a valid payload")
		polled = ps
	}
	left := old.QueuedPackets()
	for _, n := range []byte{'1', '2'} {
		verifAssert(verifCountNumbered(polled, n)+verifCountNumbered(nw.sent, n) == 1, "every message sent around a transport upgrade is delivered exactly once")
		verifAssert(verifCountNumbered(left, n) == 0, "no message stays behind in the discarded transport")
	}
	if verifCountNumbered(polled, '1')+verifCountNumbered(polled, '2') == 2 {
		verifAssert(polled[0].Data[1] == '1' || (len(polled) > 1 && polled[0].Type != parser.PacketTypeMessage), "messages on the same route keep their order")
	}
	if verifCountNumbered(nw.sent, '1')+verifCountNumbered(nw.sent, '2') == 2 {
		i1, i2 := -1, -1
		for i, p := range nw.sent {
			if verifCountNumbered([]*parser.Packet{p}, '1') == 1 {
				i1 = i
			}
			if verifCountNumbered([]*parser.Packet{p}, '2') == 1 {
				i2 = i
			}
		}
		verifAssert(i1 < i2, "messages on the same route keep their order")
	}
	verifAssert(s.TransportName() == "websocket", "after the swap the socket uses the new transport")
	s.Send(verifNumbered('3'))
	verifAssert(verifCountNumbered(nw.sent, '3') == 1, "a message sent after the upgrade travels on the new transport")
	verifAssert(verifHeldLocks() == 0, "no mutex left held")
	verifReach("end")
}
