package eio

// C02_upgrade_server: order and contiguity across a completed upgrade, server -> client: event A (two frames handed over
// in one Send) is queued on the real polling transport or emitted concurrently, event B (two frames, one Send) is
// emitted while the real upgradeTo moves the backlog to the new transport, under all interleavings at synchronisation
// points: on the new transport no frame of B lands between A's header and its attachment (nor the reverse), nothing is
// lost or duplicated.
//
//verif:unwind 40
//verif:preempt 2
//verif:visops 100
//verif:rand concrete
//verif:sleep gate
func verifH_C02_upgrade_server() { verifUpgradeFrames() }
