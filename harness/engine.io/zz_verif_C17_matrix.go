package eio

import (
	"strings"
)

// verifErrCode extracts the protocol error code of the response: natively from the JSON body, in the executor (where
// json.Marshal is an opaque stub) from the value that was marshalled.
func verifErrCode(w *verifRW) int {
	if verifIsNative() {
		s := string(w.body)
		i := strings.Index(s, `"code":`)
		if i < 0 || i+7 >= len(s) {
			return -1
		}
		return int(s[i+7] - '0')
	}
	se, ok := verifLastMarshal().(*ServerError)
	if !ok {
		return -1
	}
	return se.Code
}

// C17_matrix: the request matrix method x EIO version x transport x sid x b64 against a server holding one live
// session and remembering one closed session id. Invalid requests get the protocol's error code and neither create nor
// alter a session; a valid polling handshake creates exactly one new session with a fresh id; after Close every
// request gets 503, nothing is created and the live session was closed.
//
//verif:unwind 40
//verif:sleep gate
//verif:rand concrete
func verifH_C17_matrix() {
	created := 0
	srv := NewServer(func(socket ServerSocket) *Callbacks { created++; return nil }, nil)
	// one live session (through the real handshake path) and one that was closed earlier
	w0 := &verifRW{}
	srv.ServeHTTP(w0, verifReq("GET", "EIO=4&transport=polling"))
	verifAssert(w0.status == 200 && created == 1 && len(srv.store.sockets) == 1, "a valid polling handshake creates one session")
	live := ""
	for sid := range srv.store.sockets {
		live = sid
	}
	w1 := &verifRW{}
	srv.ServeHTTP(w1, verifReq("GET", "EIO=4&transport=polling"))
	closedSID := ""
	for sid, so := range srv.store.sockets {
		if sid != live {
			closedSID = sid
			so.Close()
		}
	}
	verifAssert(closedSID != "" && closedSID != live, "every accepted handshake yields an id unique among live sessions")
	verifAssert(len(srv.store.sockets) == 1, "a closed session's id is forgotten")
	created = 0

	afterClose := verifAnyBool()
	if afterClose {
		srv.Close()
	}

	// the request under test
	method := "GET"
	switch verifChoose(0, 2) {
	case 1:
		method = "POST"
	case 2:
		method = "PUT"
	}
	q := ""
	eioKind := verifChoose(0, 4) // absent, 3, 4, 5, junk
	validVersion := eioKind == 2
	switch eioKind {
	case 1:
		q = "EIO=3"
	case 2:
		q = "EIO=4"
	case 3:
		q = "EIO=5"
	case 4:
		junks := []string{"x", "4x", "x4", "44", "", "0x4", "4.0"}
		q = "EIO=" + junks[verifChoose(0, len(junks)-1)]
	}
	trKind := verifChoose(0, 4) // absent, polling, websocket, junk, webtransport (a real transport name, but not one a plain HTTP request can open)
	switch trKind {
	case 4:
		q += "&transport=webtransport"
	case 1:
		q += "&transport=polling"
	case 2:
		q += "&transport=websocket"
	case 3:
		q += "&transport=zz"
	}
	sidKind := verifChoose(0, 3) // absent, unknown, live, closed
	switch sidKind {
	case 1:
		q += "&sid=nope"
	case 2:
		q += "&sid=" + live
	case 3:
		q += "&sid=" + closedSID
	}
	if verifAnyBool() {
		q += "&b64=1"
	}
	before := len(srv.store.sockets)
	w := &verifRW{}
	if trKind == 2 && sidKind != 1 && sidKind != 3 && validVersion && !afterClose {
		return // reaching the WebSocket handshake needs a real connection: outside this harness
	}
	if trKind == 1 && sidKind == 2 && validVersion && !afterClose {
		return // a poll / data request on the live session is ordinary traffic, not part of the error matrix
	}
	srv.ServeHTTP(w, verifReq(method, q))

	switch {
	case afterClose:
		verifAssert(w.status == 503, "a closed server answers 503")
		verifAssert(created == 0 && len(srv.store.sockets) <= before, "a closed server admits no new session")
	case !validVersion:
		verifAssert(w.status == 400 && verifErrCode(w) == 5, "unsupported or unparsable EIO version is answered with 400 and error code 5")
		verifAssert(created == 0 && len(srv.store.sockets) == before, "an invalid request creates no session")
	case sidKind == 1 || sidKind == 3:
		verifAssert(w.status == 400 && verifErrCode(w) == 1, "an unknown or closed session id is answered with 400 and error code 1")
		verifAssert(created == 0 && len(srv.store.sockets) == before, "an invalid request creates no session")
	case sidKind == 0 && method != "GET":
		verifAssert(w.status == 400 && verifErrCode(w) == 2, "a handshake with a method other than GET is answered with 400 and error code 2")
		verifAssert(created == 0 && len(srv.store.sockets) == before, "an invalid request creates no session")
	case sidKind == 0 && (trKind == 0 || trKind == 3 || trKind == 4):
		verifAssert(w.status == 400 && verifErrCode(w) == 0, "a handshake with an unknown transport is answered with 400 and error code 0")
		verifAssert(created == 0 && len(srv.store.sockets) == before, "an invalid request creates no session")
	case sidKind == 0 && trKind == 1:
		verifAssert(w.status == 200 && created == 1 && len(srv.store.sockets) == before+1, "a valid polling handshake creates exactly one session")
	case sidKind == 2 && trKind == 4:
		verifAssert(w.status >= 400, "a plain HTTP request that names webtransport on a live session is refused (no panic, no upgrade)")
		verifAssert(created == 0 && len(srv.store.sockets) == before, "an invalid request neither creates nor removes a session")
	case sidKind == 2 && (trKind == 0 || trKind == 3):
		verifAssert(w.status == 400, "a live session addressed with an unknown transport gets a protocol error")
		verifAssert(created == 0 && len(srv.store.sockets) == before, "an invalid request neither creates nor removes a session")
	}
	if !afterClose {
		_, still := srv.store.sockets[live]
		verifAssert(still, "an invalid or unrelated request does not alter the live session")
	}
	verifReach("end")
}
