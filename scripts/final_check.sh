#!/bin/bash
# usage: final_check.sh : what I run before the last commit: every quick check on the unchanged tree (exit 0, no VIOLATION line),
# MANIFEST.json and every evidence file valid against their schemas, /repo clean, no stray worktrees, nothing of ours left under /tmp.
cd /verif
python3 scripts/gen_manifest.py > /dev/null && python3 scripts/gen_inventory.py > /dev/null
scripts/run_all.sh quick | tee .work/final_quick.txt | cut -c1-150
grep -c "exit=0" .work/final_quick.txt
grep -l "^VIOLATION" .work/logs/*-quick.log 2>/dev/null
python3-vt - <<'PY'
import json,jsonschema,glob
jsonschema.validate(json.load(open('/verif/MANIFEST.json')),json.load(open('/root/.vp/MANIFEST.schema.json')))
for f in sorted(glob.glob('/verif/evidence/C*.json')):
    jsonschema.validate(json.load(open(f)),json.load(open('/root/.vp/EVIDENCE.schema.json')))
print('manifest and', len(glob.glob('/verif/evidence/C*.json')), 'evidence files valid')
PY
echo "repo status:"; git -C /repo status --short | head -5; git -C /repo worktree list
echo "tmp leftovers:"; ls -d /tmp/wt* /tmp/repo-snap* /tmp/mutsnap* /tmp/bis* 2>/dev/null
