#!/bin/bash
# usage: run_all.sh [quick|thorough] : runs every claimed check sequentially, prints exit code and wall time per property
TIER=${1:-quick}
cd /verif
for id in $(python3 -c "import json;print(' '.join(c['property_id'] for c in json.load(open('MANIFEST.json'))['checks']))"); do
  s=$(date +%s)
  out=$(timeout 7200 ./bin/sv check $id --tier $TIER 2>&1); rc=$?
  mkdir -p .work/logs; echo "$out" > .work/logs/$id-$TIER.log
  e=$(date +%s)
  echo "$id exit=$rc wall=$((e-s))s $(echo "$out" | grep -E '^(RESULT|VIOLATION|KNOWN|MODEL|LOAD|ENCODER)' | head -3 | tr '\n' ' ' | cut -c1-200)"
done
