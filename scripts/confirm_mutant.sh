#!/bin/bash
# usage: confirm_mutant.sh <id> : in /tmp/mut_<id> (patch applied, demo in place) run the demo with and without the patch
ID=$1; W=/tmp/mut_$ID
export GOFLAGS=-mod=mod GOPROXY=off GOSUMDB=off GOTOOLCHAIN=local
cd $W || exit 2
RUN=$(python3 -c "import json;print(json.load(open('$W/_out/meta.json'))['demo_run'])")
echo "demo_run: $RUN"

timeout 300 bash -c "$RUN" > _out/with_patch.log 2>&1; A=$?
git apply -R _out/patch.diff || { echo "cannot reverse patch"; exit 2; }
timeout 300 bash -c "$RUN" > _out/without_patch.log 2>&1; B=$?
git apply _out/patch.diff
go build ./... > _out/build.log 2>&1; C=$?
echo "$ID with_patch_exit=$A (want !=0) without_patch_exit=$B (want 0) build_with_patch=$C"
