#!/bin/bash
# usage: collect_mutant2.sh <id> : round-2 mutants. From the sub-agent's scratch worktree /tmp/wt${ROUND:-2}-<id> (change applied, demo test present,
# /tmp/mutprompt${PSUF:-}/<id>.result.json written) confirm the demo both ways, run the touched packages' tests, and store everything under seeded/<id>b/.
ID=$1; W=/tmp/wt${ROUND:-2}-$ID; OUT=/verif/seeded/${ID}${SUF:-b}
export GOFLAGS=-mod=mod GOPROXY=off GOSUMDB=off GOTOOLCHAIN=local
cd $W || exit 2
mkdir -p $OUT
R=/tmp/mutprompt${PSUF:-}/$ID.result.json
DEMO=$(python3 -c "import json;print(json.load(open('$R'))['demo_file'])")
git diff > $OUT/patch.diff
cp "$DEMO" $OUT/demo_test.go
PKG=./$(dirname "$DEMO")
[ "$PKG" = "./." ] && PKG=.
NAME=$(grep -o "func Test[A-Za-z0-9_]*" "$DEMO" | head -1 | sed 's/func //')
RUN="go test -vet=off -count=1 -run '^${NAME}' $PKG"
timeout 600 bash -c "$RUN" > $OUT/with_patch.log 2>&1; A=$?
git apply -R $OUT/patch.diff || { echo "cannot reverse"; exit 2; }
timeout 600 bash -c "$RUN" > $OUT/without_patch.log 2>&1; B=$?
git apply $OUT/patch.diff
go build ./... > /dev/null 2>&1; C=$?
PKGS=$(git diff --name-only | xargs -n1 dirname | sort -u | sed 's|^|./|' | tr '\n' ' ')
mv "$DEMO" /tmp/_demo_$ID.go   # the existing tests only
timeout 1200 go test -count=1 $PKGS > $OUT/pkg_tests.log 2>&1; D=$?
if [ $D -ne 0 ]; then timeout 1200 go test -count=1 $PKGS > $OUT/pkg_tests.log 2>&1; D=$?; fi   # one retry: some tests are load-sensitive
mv /tmp/_demo_$ID.go "$DEMO"
echo "$ID demo=$NAME pkg=$PKG with_patch_exit=$A (want !=0) without_patch_exit=$B (want 0) build=$C touched_pkg_tests($PKGS)=$D"
python3 - <<PY
import json
r=json.load(open('$R'))
r['demo_dir']='$PKG'; r['demo_name']='$NAME'
r['demo_run']="copy demo_test.go to <repo>/$DEMO; $RUN"
r['confirmed_by_me']={'demo_fails_with_patch': $A!=0,'demo_passes_without_patch': $B==0,'go_build_with_patch': $C==0,'touched_package_tests_pass_with_patch': $D==0,
 'how':'scripts/collect_mutant2.sh in the scratch worktree: demo with the patch, demo with the patch reversed, go build ./..., existing tests of the touched packages'}
r['base_commit']='$(git rev-parse --short HEAD)'
r['round']=int('${ROUND:-2}')
json.dump(r,open('$OUT/meta.json','w'),indent=1)
PY
tail -3 $OUT/pkg_tests.log
