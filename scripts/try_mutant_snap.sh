#!/bin/bash
# usage: try_mutant_snap.sh <prop> <patch.diff> [tier] [extra sv args] -- like try_mutant.sh, but on a scratch copy of /repo's HEAD
# under /tmp (removed afterwards), so that /repo itself stays untouched (several can run side by side).
PROP=$1; PATCH=$2; TIER=${3:-quick}; shift 3
D=$(mktemp -d /tmp/mutsnap.XXXXXX)
git -C /repo archive HEAD | tar -x -C $D
(cd $D && patch -p1 -s < "$PATCH") || { echo "patch does not apply"; rm -rf $D; exit 2; }
cd /verif && VERIF_REPO=$D timeout 1800 ${SV:-./bin/sv} check $PROP --tier $TIER "$@" 2>&1 | grep -v "^  path" | grep -E "^(HOLDS|COUNTEREXAMPLE|INCONCLUSIVE|VIOLATION|RESULT|KNOWN|ENCODER|MODEL|LOAD|STALE)" | cut -c1-220
RC=${PIPESTATUS[0]}
rm -rf $D
echo "exit=$RC"
