#!/bin/bash
# usage: all_mutants.sh [tier] : applies every seeded change (seeded/*/patch.diff) to /repo in turn, runs the check of its
# property (plus the extra properties named in meta.json "also_checked_by"), reverts, and prints caught / MISSED / n.a.
TIER=${1:-quick}
cd /verif
for d in seeded/*/; do
  id=$(basename $d); prop=${id:0:3}
  if ! git -C /repo diff --quiet; then echo "repo dirty, stopping"; exit 2; fi
  if ! git -C /repo apply --check $PWD/$d/patch.diff 2>/dev/null; then echo "$id: patch does not apply to the current tree (n.a.)"; continue; fi
  git -C /repo apply $PWD/$d/patch.diff
  out=$(timeout 3000 ./bin/sv check $prop --tier $TIER 2>&1); rc=$?
  git -C /repo checkout -- .
  v=$(echo "$out" | grep -c "^VIOLATION")
  if [ $rc -eq 1 ] && [ $v -gt 0 ]; then echo "$id: caught ($v violation lines; $(echo "$out" | grep -m1 '^  harness=' | cut -c1-160))"; else echo "$id: MISSED (exit=$rc) $(echo "$out" | grep -E '^(RESULT|LOAD|STALE|ENCODER)' | head -2 | tr '\n' ' ' | cut -c1-200)"; fi
done
