#!/bin/bash
# usage: try_mutant.sh <prop> <patch.diff> [tier] [extra sv args]   -- applies the patch to /repo, runs the check, reverts.
PROP=$1; PATCH=$2; TIER=${3:-quick}; shift 3
cd /repo || exit 2
if ! git diff --quiet; then echo "repo dirty, refusing"; exit 2; fi
git apply "$PATCH" || { echo "patch does not apply"; exit 2; }
cd /verif && timeout 1800 ./bin/sv check $PROP --tier $TIER "$@" 2>&1 | grep -v "^  path" | grep -E "^(HOLDS|COUNTEREXAMPLE|INCONCLUSIVE|VIOLATION|RESULT|KNOWN|ENCODER|MODEL|LOAD)" | cut -c1-220
RC=${PIPESTATUS[0]}
git -C /repo checkout -- . ; git -C /repo status --short | head -3
echo "exit=$RC"
