#!/bin/bash
# Runs the repository's baseline test command (guard off) and reports stable_pass tests that did not pass.
# usage: baseline_check.sh [repo_dir]
REPO=${1:-/repo}
export GOFLAGS=-mod=mod GOPROXY=off GOSUMDB=off GOTOOLCHAIN=local
OUT=$(mktemp /verif/.work/baseline.XXXXXX.json 2>/dev/null || { mkdir -p /verif/.work; mktemp /verif/.work/baseline.XXXXXX.json; })
(cd "$REPO" && go test -mod=mod -json -vet=off -count=1 -timeout 25m ./... > "$OUT" 2>/dev/null)
python3 - "$OUT" <<'PY'
import json,sys
base=json.load(open('/root/.vp/BASELINE.json'))
passed=set()
for l in open(sys.argv[1]):
    try: e=json.loads(l)
    except Exception: continue
    if e.get('Action')=='pass' and e.get('Test'):
        passed.add(e['Package']+'::'+e['Test'])
missing=[t for t in base['stable_pass'] if t not in passed]
print("stable_pass=%d passed_now=%d missing=%d"%(len(base['stable_pass']),len(passed),len(missing)))
for t in missing: print("  NOT-PASSED",t)
sys.exit(1 if missing else 0)
PY
RC=$?
rm -f "$OUT"
exit $RC
