# Table of claimed properties (exec'd by gen_manifest.py): claimed[id] = (level text, level note, DESIGN.md ref)
not_applicable = {}

claimed["C10"] = (
    "Bounded symbolic verification of the decoder kernel against peer-controlled input: (1) every byte string of length 0..5 (quick) / 0..8 (thorough) over the FULL byte alphabet fed symbolically to the real "
    "Parser.Add/parseHeader: every implicit Go panic condition (slice/index bounds, nil, makeslice) on every feasible path is a solver query, so 'no first frame of that length can make the decoder panic' is decided "
    "for all 2^(8L) inputs rather than sampled; (2) binary headers whose attachment count is any 1..3 symbolic digits or one of 20 boundary counts up to 10^20 (both sides of 2^31, 2^32, 2^47/24, 2^63, 2^64): no "
    "panic, and an accepted header leaves the decoder expecting a positive, limit-respecting number of attachments (never wedged on a negative count); (3) placeholder arithmetic with the number ANY int "
    "(typed Binary path, real reconstructBinaryValue) and ANY float64 incl. NaN/Inf/2^63 (untyped map[string]any path, real reconstructMap with both key orders, through the executor's reflect model): never a "
    "panic; a placeholder is resolved only if it designates an attachment and then to exactly that attachment, otherwise an error. JSON is an opaque stub (may fail, may return 0..2 strings / any number). "
    "(4) error routing on server and client (real onEIOPacket / onParserFinish / onPacket / onEvent / onFatalError / Manager.onClose) with a decoder whose behaviour is symbolic - refuses the frame, or completes a packet whose decode "
    "closure fails / returns one value too few / one too many / succeeds - against five handler signature families: no panic on any goroutine; refused frame => socket error handlers + connection closed (client: closed once with the "
    "parse-error reason); undecodable arguments => error handlers, handler not called, connection stays; a second connection of the same server keeps receiving events; no mutex left held.",
    "Outside the claim: frames longer than the bound, panics inside encoding/json itself, the struct / slice branches of the reflect walk on the decode side beyond the shapes of C09_walk_rt, hangs (termination is not checked beyond the unwinding bounds).",
    "5 (C10)")

claimed["C11"] = (
    "Bounded symbolic verification of Engine.IO framing: packet encode/decode round-trip (text, binary frame, base64 with the real encoding/base64 executed from SSA) "
    "for all payload bytes up to 3 (quick) / 6 (thorough) bytes; payload (0x1e-separated) round-trip for 0..2/3 packets (EncodedPayloadsLen == bytes written, the empty sequence included); decode totality on arbitrary bytes; and the "
    "WebTransport length prefix for EVERY frame length below 2^40 as one symbolic integer (all three header forms and the boundaries 125/126/65535/65536 are points of "
    "the solver's domain), plus: an arbitrary 9-byte header read through the server's limited reader never causes a buffer above the limit and never panics.",
    "Outside the claim: payloads longer than the byte bounds for content equality (lengths are unbounded in the WebTransport harness but contents there are abstract), gzip, HTTP plumbing, HandshakeResponse JSON. "
    "io.ReadAll is summarised in the WebTransport harnesses (one Read with unlimited room per round; chunk sizes not modelled) and executed from real SSA in the parser harnesses.",
    "5 (C11)")

claimed["C13"] = (
    "Bounded symbolic verification of the four size-limit kernels. (1) Client batcher: 2..4 (quick) / 2..6 (thorough) packets whose sizes are symbolic over [0,2^40], binary flags symbolic, maxPayload symbolic over "
    "[1,2^44]: the batches concatenate to the input (no drop/dup/reorder), no batch is empty, every multi-packet batch's encoded size (real EncodedPayloadsLen) is <= maxPayload - the property's 'every vector of up "
    "to 6 sizes x every maxPayload' as one query family instead of an enumeration. (2) Long-polling POST: body of 0..12 bytes against a limit M symbolic in [0,8], size declared in Content-Length or NOT declared "
    "(chunked): above the limit never delivered, transport closed, at most M+1 bytes taken from the body; within it accepted intact. (3) WebSocket read limits with the library stubbed to its one relevant state (read "
    "limit, default read from the module source): server limit == MaxBufferSize, unlimited when disabled; client admits every message within the announced maxPayload (fresh connection and upgrade); natively the same "
    "sizes go through a real loop-back WebSocket pair of the two transports. (4) WebTransport: declared frame length vs. limit for arbitrary 9-byte headers (see C11).",
    "Outside the claim: real HTTP I/O, gzip expansion, JSONP form bodies, polling bodies longer than 12 bytes (the limit logic is size-relative), the nhooyr library's own enforcement of the limit it is given.",
    "5 (C13)")

claimed["C18"] = (
    "Bounded symbolic verification of the handler stores against a reference model from an ARBITRARY store state: the generic handlerStore is instantiated at int so that handler identity "
    "is a symbolic value (every aliasing pattern - duplicates, absent handlers, the same handler named twice - is one symbolic state); lists of up to 3+2 (quick) / 4+3 (thorough) handlers, "
    "off() with 0..2/3 arguments; asserts multiset equality with filter-out-all-named, no panic, mutex released. Because the pre-state is arbitrary one step covers all call sequences. "
    "eventHandlerStore.off likewise over two events with handler identity = code pointer (reflect model). The public On/Once/Off wrappers of Manager, Server, Namespace, serverSocket, "
    "clientSocket are executed concretely through the same executor: ALL 17 typed lifecycle events (C18_api_all) with f and g registered by On, h by Once, Off called with one handler / with none (everything goes) / with two, then two occurrences: removed handlers never run, On handlers twice, Once handlers once.",
    "Two occurrences racing (plus an Off) under all interleavings: a Once handler goes to at most one occurrence, an On handler to both. Overlapping occurrences: the handler list handed to an occurrence in flight is not changed by later registrations or occurrences, for every n <= 4 (quick) / 9 (thorough) On handlers (all slice capacities crossed), in both stores. Outside the claim: distinct closures sharing one code pointer (reflect cannot tell them apart - the repo's own notion of identity); lists longer than the bounds.",
    "5 (C18)")

claimed["C04"] = (
    "Bounded symbolic verification of the in-memory adapter: from EVERY membership matrix of 2x2 (quick) / 3x3 (thorough) sockets x rooms built through the real AddAll, and every target set T and "
    "exclusion set E (plus the sender's own-id room, as a socket's broadcast operator adds), the real Broadcast (apply/computeExceptSids, mapset library code executed from SSA) delivers to exactly "
    "the sockets the 5-line reference selects, once each, never to the sender; one membership operation from every 2x2 (quick) / 3x2 (thorough) state (join, leave, leave-all, SocketsJoin, SocketsLeave, DisconnectSockets with sockets calling back "
    "into the adapter, leaving the own-id room) from every such state yields exactly the specified new membership, a broadcast without target rooms afterwards still reaches every connected socket once, and preserves the representation invariant (rooms/sids mutually inverse, no empty room kept) - one inductive "
    "step covers histories of any length over that universe. C04_select_own lets T and E also contain the sockets' own-id rooms (To(socketID)/Except(socketID): a socket selected through its own room AND a joined room is still reached once), for Broadcast and FetchSockets, 2x2 (quick) / 3x2 (thorough). To/Except immutability is checked concretely.",
    "Also: a Join / SocketsJoin racing the socket's teardown (shared kernel with C06_join_race): afterwards no room lists the socket. A broadcast racing a join / leave / disconnect of a third socket under all interleavings (interval semantics: member throughout exactly once, non-member never, changing socket at most once). Outside the claim: multi-node adapters; universes larger than 3x3; end-to-end delivery. "
    "Map iteration follows insertion order in the executor (Go leaves it unspecified).",
    "5 (C04)")

claimed["C08"] = (
    "Bounded symbolic verification of the packet log / cleaner / RestoreSession kernel against a ghost log under a VIRTUAL CLOCK: histories of 1..2 (quick) / 1..3 (thorough) broadcasts of four addressing kinds, "
    "disconnect point d, the client's offset = ANY addressed packet before the disconnect (it may lag), symbolic time between the last packet and the moment the disconnect is noticed, clean-up passes after the disconnect (0..1) and before the restore (0..2) executed by running the real cleaner goroutine body (its time.Sleep is gated), and the time elapsed between "
    "all steps as SYMBOLIC durations (0..4 units each, decided by the solver, not enumerated). Asserts: recovered => exactly the addressed packets after the offset, in order, none twice (no gap); session older "
    "than the window => not recovered; session and log entries younger than the window => recoverable whatever the passes; unknown pid / unknown offset / EMPTY offset / ANY 1..2-byte offset that is not a logged id => not recovered, the adapter's mutex free and the adapter usable afterwards; only plain events are logged. "
    "Clean-up passes while everybody is connected (0..2, then disconnect, a missed packet, 0..1 more passes): still recovered with exactly the missed packet. Repeated recovery: recovered, rooms changed by a symbolic join / leave, persisted again, two broadcasts missed, recovered again: rooms and replay follow the LATEST disconnection. Glue: the client records the trailing offset argument iff it holds a session id and strips it before the handler; a recovered server socket re-joins exactly its persisted rooms and re-sends exactly the missed packets in order.",
    "Outside the claim: instants exactly at the window boundary (durations are multiples of 100ms against a 250ms window), binary packets through the real encoder (frames are opaque), several sessions on one log, time overflow. Native replay approximates cleaner passes with a 2ms period.",
    "5 (C08)")

claimed["C09"] = (
    "Bounded symbolic verification of the Socket.IO header codec: the real encodeString output is compared byte-for-byte with an independent 15-line rendering of the v5 layout "
    "<type>[<n>-][<nsp>,][<id>]<json> and then parsed back by the real parseHeader, with one field symbolic at a time: all 7 packet types x namespace ''/'/'/'/'+x (x up to 2/4 symbolic comma-free bytes, "
    "ALL byte values); ack id symbolic below 10^4 (quick) / 10^5 (thorough; 10^6 was decided on an idle machine but left one query undecided under load, so it is not registered) through the real strconv.FormatUint/ParseUint executed from SSA; attachment count symbolic 0..999; event names of up to 2/4 symbolic "
    "bytes over printable ASCII (quotes and backslashes included) followed or not by a further argument. JSON is a string-literal model that `sv selftest C09` validates natively against encoding/json "
    "(exhaustively on short strings) on every run. "
    "The binary walk (real deconstruct*/reconstruct*/hasBinary through the executor's reflect model with addressability: Field, Index, CanSet, Set, SetBytes, MakeSlice, SetMapIndex): a menu of 17 argument trees "
    "(two-entry map[string]any / map[string]Binary with an unordered oracle, struct pointer / struct value / map[string]any / []any / bare Binary / []Binary / two leaves in one struct / pointer and interface fields / slice->map->struct pointer / *Binary (refused) / map[string]Binary / "
    "[]*struct / [][]any / map in map / struct value with interface field) with ANY bytes in 1..2 Binary leaves of 0..2 (quick) / 0..3 (thorough) bytes each: the frames are exactly '5<n>-' + the JSON text with the "
    "n-th leaf (walk order) replaced by {\"_placeholder\":true,\"num\":n} + the n attachments byte-identical and in order; the caller's values are unchanged afterwards (snapshot comparison); encoding the same "
    "values again yields the same frames, also with the SAME header object (the kept packets of connection state recovery: found a defect there, repaired); and the frames fed to a second parser's Add complete exactly once with the last frame and decode (typed struct, map[string]any, map[string]Binary, []Binary targets) to byte-identical "
    "leaves. A REFUSED Encode (two-leaf shapes against maxAttachments = 1, or a trailing *Binary) leaves the values intact as well and they still encode with a parser without the limit. The JSON library is a structural renderer that `sv selftest C09` compares with encoding/json on the whole menu.",
    "Outside the claim (structural): everything encoding/json does beyond string literals and the shapes of the menu (numbers, unicode escapes, field tags, map key order with several keys); argument trees outside "
    "the menu; ack ids above the bound (the digit loop is the same code; 64-bit div/mod chains exceed the solver budget); non-ASCII / control characters in event names.",
    "5 (C09)")

claimed["C15"] = (
    "Bounded symbolic verification of the three reconnection kernels. (1) Back-off calculator in SMT floating point: min, max (0 < min <= max <= 2^53 ns), jitter (any float32, incl. NaN/Inf/negative) and the random "
    "draw r in [0,1) symbolic; attempt number concretised (quick: 0,31,62,63 - one per regime: exact, int64 wrap of min*2^k, float->int overflow at 2^63; thorough: every 0..70): 0 < delay <= max, first delay == min "
    "without jitter, attempt accounting; (all (min,max), k <= 40, no overflow) delays do not decrease without jitter. FP queries are decided by fresh z3 processes, cvc5 / z3 5.1 as fall-back. (2) Reconnect state "
    "machine (real Manager.reconnect/connect/onReconnect with the network dial cut) for every attempt limit N in 0..4 and every outage length j in 0..5: dials exactly min(j+1,N) times, reconnect_failed exactly once "
    "after N failures (disconnected, back-off reset, no reconnect), reconnect exactly once with the successful attempt's number otherwise, attempts numbered 1,2,3.. ; a stop (Manager.Close) after 0..3 computed delays of a cycle followed by a new open with the server still down starts a full cycle of its own (N attempts, one reconnect_failed). (4) an offline emit with ack + timeout (public API) times out during the outage: its callback gets ErrAckTimeout once and every other non-volatile offline emit is still delivered once, in order. (6) the retry queue (Retries > 0): unacknowledged head, outage, offline emit, real onConnect: the head is retransmitted at once, the offline emit follows its acknowledgement; (5) buffered offline emits and an emit from a connect handler through the real clientSocket.onConnect: the buffered events go out first, in order. (3) Offline buffer: 1..3/4 emits while "
    "disconnected with symbolic volatile flags and 1..2 frames each, then emitBuffered twice: exactly the non-volatile emits' frames, in order, once; volatile dropped; second flush sends nothing.",
    "Outside the claim: max above 2^53 ns (float64(max) may round up past max), attempt numbers above 70, real timers / outages / black-holed dials, the retry queue (clientPacketQueue), ack-carrying offline emits "
    "(C03 covers their timeout). math.Pow is evaluated natively on concrete operands; float->int conversion follows amd64. One jitter-bound assertion (delay <= 2*min at attempt 0) stayed unknown on all three solvers at 60 s and is not claimed.",
    "5 (C15)")

claimed["C19"] = (
    "Bounded model checking of the two check-then-wait queues by symbolic execution of the real code under ALL interleavings at synchronisation points (mutex Lock/RLock, channel send/receive/select/close, "
    "Once, WaitGroup): pollQueue with one consumer poll and 1..2 (quick) / 1..3 (thorough) producers, plus the stale-signal scenario (a leftover wake-up must not make the next poll answer empty) and TWO pending polls with two adds from one or two producers (no poll left waiting while a packet is queued, each packet returned by exactly one poll); packetQueue with "
    "a consumer polling in a loop, 1..2 producers and an optional closer. Timers are disabled in these harnesses (a timeout is exactly the unrelated event that must not be needed), so the critical schedule "
    "'producer runs between the consumer's emptiness check and its wait' is one of the explored paths, not a matter of luck. Asserts at quiescence: consumer not parked while packets are queued, no empty answer, "
    "every packet delivered or queued exactly once. Across the transport swap (kernel shared with C07_swap_server): messages sent while the real upgradeTo runs never stay behind in the discarded polling queue. A happens-before race monitor runs on all shared cells. Counterexample schedules are replayed natively through instrumented copies of the package's files "
    "(verifSched() gates before every visible operation).",
    "Bounds: preemption bound 3 (pollQueue) / 2 (packetQueue), <= 60 scheduling decisions per path. Outside the claim: what HTTP does with the poll response, the drain/close handshake of the sender goroutine beyond 'closed is reported', more threads.",
    "5 (C19)")

claimed["C03"] = (
    "Bounded model checking + symbolic execution of the ack kernel (reflect.Call etc. through the executor's reflect model): (1) server socket: an ack with timeout whose reply, optionally duplicated, races the "
    "timer goroutine in EVERY order at synchronisation points: the callback runs exactly once, a winning reply carries its own arguments, no reply => ErrAckTimeout, entry removed, no mutex held, nothing blocked; "
    "(2) three outstanding acks and a reply with an ARBITRARY symbolic uint64 id, delivered twice: only the callback registered under exactly that id runs, at most once, unknown/duplicate ids reach the error "
    "handlers; (3) client socket offline: 1..2 (quick) / 1..3 (thorough) buffered emits of 1..3/4 frames with and without acks, the timeout of one fires while it is still buffered: callback exactly once with "
    "ErrAckTimeout, buffer == frames of the other packets in order, sendBufferMu free, socket still usable; "
    "(7) a chained request / response (an ack callback emits again with an ack of its own), server and client: no deadlock, both replies reach their callbacks once; (6) acks outstanding across a reconnection: A (with timeout) outstanding, connection lost, connected again, B emitted, A times out, the reply to B reaches B (an id still held is not handed out again); (4) through the public Emit / Timeout(d).Emit on a client socket and on a server socket: the peer answers before the emitter has returned from the send (client: inside the send hook; server: a peer thread "
    "that may run at every scheduling point once the frame is queued): the callback gets that reply exactly once, no timeout; (5) a handler calling its ack function from two goroutines produces exactly one ACK.",
    "Bounds: preemption bound 3. Outside the claim: real timer durations (the claim is about every ORDER), the wire format of ACK packets (C09), nothing else known.",
    "5 (C03)")

claimed["C12"] = (
    "Bounded symbolic execution of the admission and event-middleware kernels on a server built from the real stores, namespaces, in-memory adapters and packet queue (transport and encoder are recording stand-ins): "
    "(1) chains of 0..3 (quick) / 0..5 (thorough) namespace middlewares, each accepting or rejecting by a symbolic Boolean (every accept/reject vector), rejection as error / string / struct pointer / struct VALUE with any int field (zero included) / ANY string of length 0..1 (empty included), default and custom "
    "namespace, through the real serverConn.connect -> Namespace.add -> runMiddlewares -> doConnect -> onConnect: run order and short-circuit, socket listed / in own room / connected / connection handlers run IFF no "
    "rejection, exactly one CONNECT_ERROR carrying the rejecting middleware's data and nothing of the socket left otherwise; (3) two connections asking for the same namespace at once, each with its own symbolic verdict, middleware yielding, all interleavings: each ends up exactly as its own verdict says; (4) connection state recovery ON and a client presenting ANY made-up session id / offset (0..1 symbolic bytes each, parsed from the CONNECT's JSON by the executor's flat-object Unmarshal) to a rejecting chain: the claim is no ticket past the middlewares; (2) an event middleware registered through the real Use (signature check on the reflect "
    "model) with five handler signature families (first parameter string / int / struct, no parameters, with ack function): it sees the event's NAME and arguments before the handler, a rejected event never "
    "reaches the handler and is reported to the error handlers, an accepted one reaches it exactly once.",
    "Outside the claim: more than two concurrently connecting clients, the wire encoding of CONNECT_ERROR (C09), auth payloads other than flat objects of string members (encoding/json.Unmarshal is otherwise stubbed: succeeds, target untouched).",
    "5 (C12)")

claimed["C17"] = (
    "Bounded symbolic execution / model checking of the Engine.IO server's request validation through the real Server.ServeHTTP (net/url query parsing and strconv.Atoi executed from SSA, polling transport real, "
    "HTTP request/response as recording stand-ins): (1) the full matrix method {GET,POST,PUT} x EIO {absent,3,4,5, seven junk forms} x transport {absent,polling,websocket,junk,webtransport (a real transport name that a plain HTTP request cannot open)} x sid {absent,unknown,live,closed} x b64, "
    "before and after Server.Close, on a server holding one live session and one closed id: protocol error code per case (5 / 1 / 2 / 0, any error for a live sid with an unknown transport), store unchanged, no "
    "session created, valid polling handshake creates exactly one, 503 after Close; (2) id distinctness with SYMBOLIC random bytes and symbolic sequence numbers differing by any d in (0,2^24) through the real "
    "base64 encoder, invalid sizes refused, and an overlapping id neither overwrites nor removes the live session; (3) a valid handshake racing Server.Close under all interleavings at synchronisation points "
    "(preemption bound 2): after Close returned no live session remains.",
    "Outside the claim: real HTTP parsing, the WebSocket / WebTransport handshakes (ProtoMajor 3), JSONP, 10^5..10^6 generated ids (replaced by the symbolic distinctness argument); the error code in the body is read from the value "
    "handed to json.Marshal (stubbed) in the executor and from the real JSON body in native replay.",
    "5 (C17)")

claimed["C06"] = (
    "Bounded model checking of the close paths on a server built from the real stores, namespaces, adapters and packet queue (transport and encoder are recording stand-ins): (1) a connected socket receives TWO "
    "termination causes concurrently - every pair of {transport close, client DISCONNECT, server namespace disconnect, server connection close, server shutdown} - under all interleavings at synchronisation points "
    "(preemption bound 1 quick / 2 thorough): its disconnect handler runs exactly once with the reason of a cause that occurred; afterwards the namespace's socket list, the connection's socket list and every room "
    "have forgotten it, it is disconnected, no mutex is left held; (2) the connection dies at any point while a CONNECT is being admitted through a (yielding) namespace middleware: afterwards the namespace lists no "
    "socket of the dead connection and no room keeps its id; (6) adapter level: DeleteAll from every 2x2 membership including sockets that left their own-id room: no room lists the socket, indexes stay mutually inverse; (5) the connection is cut while the backlog is flushed during the real upgradeTo (the new transport reports its close, with or without error, from inside the write of backlog packet 1 or 2): OnClose exactly once with transport close / transport error; (4) Engine.IO level: a handshake whose application callback yields races Server.Close: every announced session gets OnClose exactly once and the session store is empty afterwards; (3) one termination cause races a Join from another goroutine or a SocketsJoin of an operator (preemption bound 2): afterwards the socket is in no room "
    "and nothing lists it (found a genuine race of Join against the teardown, repaired: DESIGN.md 0.4). Counterexample schedules are replayed natively through instrumented copies of the package's files.",
    "Outside the claim: cutting the TCP stream at byte k, real ping timers, the Engine.IO-level close paths and session-id lookup (C17 covers 'closed sid => error 1'), upgrades in flight, connection state recovery on close.",
    "5 (C06)")

claimed["C02"] = (
    "Bounded model checking of the two order kernels under all interleavings at synchronisation points (preemption bound 2): (a) wire order / contiguity: two producer goroutines hand packets of 1..3 frames to the "
    "connection's real send path (serverConn.sendBuffers -> packetQueue.add), one of them two packets in a row, while a consumer drains with the real poll: every frame is on the wire exactly once, the frames of a "
    "packet are contiguous and in frame order, packets of one goroutine keep their order; (b) handler-entry order: two EVENT packets (the first optionally binary with an attachment) arriving in one Engine.IO payload "
    "through the real serverConn.onEIOPacket -> onParserFinish -> serverSocket.onPacket -> handler, and the same on the client through Manager.onEIOPacket: the handlers are entered in packet order "
    "(this was violated on the pinned commit - one goroutine per decoded packet - first recorded as a known finding, then repaired, DESIGN.md 0.4 F14); (b') a burst: five events in two payloads with yielding handlers, server and client, all interleavings: each once, in order; (e) events emitted before the socket is connected and an emit from a connect handler through the real onConnect: the earlier events first (kernel shared with C15_offline_onconnect); (d) a batch taken from the long-polling queue (poll / get, 1..3 packets, handed over singly or in pairs) keeps exactly its packets while 1..3 more are sent, which come out next, each once, in order; (c) after an upgrade: two two-frame events (one queued on the real "
    "polling transport or both concurrent) around the real Engine.IO upgradeTo: every frame exactly once on the new transport, the frames of each event adjacent and in order.",
    "Outside the claim: more than 2 producers / longer bursts (argument: the critical section is one mutex-protected append), more than two events per payload, "
    "reordering between two physical transports on the client side of an upgrade, real transports.",
    "5 (C02)")

claimed["C05"] = (
    "Bounded symbolic execution of namespace isolation: (1) header: the namespace written by the real encodeString is the one read back by the real parseHeader for '' , '/' and '/'+x with x any 0..3 (quick) / 0..5 "
    "(thorough) symbolic comma-free bytes on every packet type - look-alike and prefix names are cases of one symbolic name; (2) routing: a connection that joined a symbolic subset of {/, /a}, a packet of ANY type "
    "addressed to /, /a, /b (existing, not joined), /zz (not existing) or '' through the real serverConn.onEIOPacket/onParserFinish: dispatched only to the socket of exactly that namespace; non-CONNECT for a namespace "
    "without a socket, or CONNECT for one already joined, closes the connection and reaches nobody; CONNECT for an existing unjoined namespace attaches the client there and nowhere else; DISCONNECT leaves the other "
    "namespaces connected; (3) per-namespace adapters, rooms and ack-id counters; a namespace broadcast reaches only that namespace's socket; disconnecting one namespace keeps the other's socket and rooms; (4) attach only after acceptance: while the middleware of a requested namespace is still deciding (it even joins a room), broadcasts to that "
    "namespace and to that room put nothing on the connection, the socket is not listed, the traffic of the attached namespace goes on; acceptance attaches, refusal attaches nothing and nothing is ever sent for it; (6) packets of one namespace that follow each other at once are judged in the state their predecessors leave behind: DISCONNECT /a + CONNECT /a, or CONNECT /b + EVENT /b, in one payload: connection stays, other namespace stays, namespace attached again; (5) client side: the router (an event reaches only the client socket of exactly its namespace, symbolic look-alike names included) and error isolation (an undecodable event on /a never invokes a handler of a sibling namespace that is connected or waiting for its CONNECT answer - in particular not its connect_error handlers - and leaves its state untouched).",
    "Outside the claim: interleavings of CONNECT replies (sequential here), everything JSON.",
    "5 (C05)")

claimed["C16"] = (
    "Bounded model checking of operation GROUPS (a narrow slice of the statement, which quantifies over all programs): for each group two goroutines perform one operation each - every pair of operations of the group - "
    "under all interleavings at synchronisation points (preemption bound 2; server-socket group 1 quick / 2 thorough), and the executor's monitors must stay silent: happens-before data race on any heap cell, map or "
    "slice element (vector clocks; confirmed natively with `go test -race`), a goroutine left blocked with nobody to release it, a mutex left held, unlock of an unlocked mutex, an escaping panic. Groups: G1 handlerStore "
    "on/once/off/offAll/forEach/getAll with a handler that removes itself while dispatched; G2 eventHandlerStore on/once/off/offAll/getAll and off with a non-function argument (panics in reflect, recovered by the caller: mutex free, store usable); G3 packetQueue add/get/reset/close (+ a parked poller); G4 clientSocket (real constructor) Emit plain / with ack / volatile, OnEvent, OffEvent, an incoming event, an incoming ACK whose callback emits again, Disconnect; "
    "G5 operations from a CLIENT acknowledgement callback delivered through the real reader path (Manager.onEIOPacket under the parser mutex): Disconnect / Manager.Close / Emit with ack / OnEvent / OffEvent: no deadlock, no mutex held, reader usable afterwards; "
    "G9 the Engine.IO client's UpgradeDone handler asks for the transport name and sends while the real tryUpgradeTo / finishUpgradeTo completes; "
    "G6 namespace-wide Emit / To(room).Emit / SocketsJoin / SocketsLeave / FetchSockets / DisconnectSockets / Sockets (quick: one operation, thorough: every pair) racing a client being admitted through a middleware that joins a room, on the "
    "admitted socket's namespace or another one; G8 Engine.IO server socket (real newServerSocket, ping loop running) Send / Close / onPong / TransportName / incoming CLOSE / upgradeTo / transport close; G7 serverSocket "
    "Join/Leave/registerAckHandler/onAck/onClose/Disconnect/Rooms on a connected socket of the server world; session-aware adapter: RestoreSession (unknown session / unknown offset / good offset) against Broadcast and "
    "PersistSession, three goroutines, then the adapter must still work.",
    "Outside the claim: everything not in a listed group (adapters under re-entrant callbacks beyond C04_concurrent, the Engine.IO client socket, Manager Open against the network), more than 2 goroutines, GOMAXPROCS effects, "
    "the race detector's view of stdlib / third-party internals, unbounded programs. Code between two synchronisation operations is executed atomically, which is sound only if it is race-free - that proviso is what the race monitor checks.",
    "5 (C16)")

claimed["C14"] = (
    "Bounded symbolic execution of the two heartbeat loops under a VIRTUAL clock (discrete-event semantics in the executor: time advances through time.Sleep, through the peer model's symbolic answer delays, and by "
    "jumping to the earliest pending time.After deadline when nothing else can run; comparisons of symbolic instants are decided by the solver). Server: the real serverSocket.pingPong started by newServerSocket with "
    "pingInterval and pingTimeout SYMBOLIC in [100ms,300ms] (the loop is scale-free; the property's 1s..3s is the same kernel), a peer that answers the first 0..2 pings (with 3 the solver left the feasibility of ~30 timing paths undecided: not registered) after symbolic delays "
    "strictly below pingTimeout (the answer may overtake the pinging goroutine at any synchronisation point: real thread scheduling with one preemption quick / two thorough) and is then black-holed: never closed while pongs arrive in time, exactly one more ping per answered ping, closed exactly once with ReasonPingTimeout, no later than pingInterval + "
    "pingTimeout after the last sign of life and not before pingTimeout without a pong, transport closed. Upgrade probe: a probe PING on a candidate transport at a symbolic instant, then silence: still detected within pingInterval + pingTimeout of the start (a probe is no heartbeat answer). Client: the real handleTimeout re-armed by pings through the real handlePacket: never closes while ping gaps "
    "stay below pingInterval+pingTimeout, closes with the ping-timeout reason exactly pingInterval+pingTimeout after the last ping, every ping answered with a pong.",
    "Outside the claim: wall-clock behaviour and OS scheduling latency (virtual time has none; native replay allows 60ms slack and only confirms violations larger than that), transports, proxies, one-directional loss, "
    "the CLIENT's connect path (clientSocket.connect: HTTP handshake, then the watchdog and the upgrade are started - a seeded change that starts the watchdog only after the upgrade attempt, C14e, is NOT caught: the harness starts handleTimeout itself), "
    "client-side upgrades in flight, a ping delayed inside the polling queue (C19 covers that queue).",
    "5 (C14)")

claimed["C07"] = (
    "Bounded model checking / symbolic execution of the transport-swap kernel and of the 'ignore the loser' logic (the probe exchange over real sockets is not encodable): (1) server swap: old transport = the REAL "
    "long-polling transport, new = recording; one goroutine sends two numbered messages through the socket, one runs the real upgradeTo, optionally one plays a poll request pending on the old transport, under all "
    "interleavings at synchronisation points (preemption bound 2, 4496 schedules): every message delivered exactly once (poll response or new transport), none left in the discarded transport's queue, same-route "
    "order kept, later sends use the new transport; (2) server candidate handling through the real maybeUpgrade (entered on its WebTransport branch so the candidate can be a recording transport) with a symbolic "
    "scenario - probe PING then UPGRADE (with a backlog queued on the old transport whose flush to the new one takes ANY time up to 3x UpgradeTimeout: the upgrade timer must not touch the new transport) / any other packet type / candidate closes / silence until the upgrade timer fires (virtual clock): pong 'probe' on the candidate, UPGRADE completes the swap; every failure "
    "closes ONLY the candidate, the socket stays open on its original transport and keeps sending there; (3) client: the real tryUpgradeTo/finishUpgradeTo with the candidate answering pong 'probe' / another pong / "
    "another packet / nothing: UPGRADE is the first packet on the new transport, old transport discarded once, later messages on the new one; failures and the timeout leave the original transport in place, the socket open and working; "
    "(5) the WebSocket transport a client creates for an upgrade admits every server -> client message within the announced maxPayload (symbolic sizes up to 2^40, beyond the library's 32 KiB default); (4) client swap race: a Send from another goroutine racing the real finishUpgradeTo under all interleavings: sent exactly once and never ahead of UPGRADE on the new transport.",
    "Outside the claim: the long-polling CLIENT transport over real net/http (a seeded change that drops the last poll answer arriving after Discard, C07f, is NOT caught), the WebSocket/WebTransport handshakes, the real probe exchange, in-flight HTTP responses, reordering BETWEEN the two physical transports during the swap window, binary/text mix.",
    "5 (C07)")

claimed["C01"] = (
    "Bounded symbolic execution of the frame-pipeline KERNEL in both directions (server->client and client->server): emit on a connected socket -> real sendBuffers / _sendBuffers -> real packet queue -> real "
    "Engine.IO framing (websocket-like: every packet its own frame; polling-like: the real EncodePayloads/DecodePayloads with base64 for binary) -> the receiving connection's real onEIOPacket (parser mutex) -> real "
    "routing by namespace -> real dispatch by event name (event handler store) -> handler call through the reflect model. Symbolic: event name choice (two names with handlers, one without; a same-named handler "
    "in another namespace), 0..2 binary attachments of 0..2 SYMBOLIC bytes each (so the 0x1e record separator, 'b', digits are points of the solver's domain), framing mode, 1 (quick) / 1..2 (thorough) events. "
    "Asserts: the event reaches exactly the peer's handler(s) registered for that name in that namespace, exactly once, with byte-identical attachments in their places; an event without handler reaches nobody; "
    "no half-assembled packet stays in the decoder; the connection is not closed. C01_upgrade_server: two two-frame events (one queued on the real polling transport, or both concurrent) around the real "
    "Engine.IO upgradeTo under all interleavings: every frame reaches the new transport exactly once and the frames of each event stay adjacent and in order. C01_decode_args: an event with Binary leaves (struct, map[string]any, map[string]Binary, []Binary; symbolic bytes) through the real encoder, Add and decode closure: every leaf back in its place (kernel shared with C09_walk_rt). C01_batch: the client's long-polling batcher with symbolic packet sizes and maxPayload (kernel shared with C13_batch): every packet once, in order, no multi-packet body above the announced limit. C01_concurrent_emitters: two goroutines emit a binary event each on one connection under all interleavings, the queue content then travels through the pipeline: both handlers once, each with its own attachment. C01_pipeline_recovery: the server -> client pipeline with connection state recovery ON (emit through the real session-aware adapter, client holding a session id): each event once, attachments byte-identical, also when the same values are emitted twice. The Socket.IO codec is a frame-preserving stand-in here: header/JSON are C09's subject, Engine.IO framing is C11's, the queue C02/C19's.",
    "Outside the claim (structural for this family): argument trees through encoding/json and the reflect walk, sizes near 32 KiB / 64 KiB / MaxBufferSize and the transports' read limits (C13 decides the limit kernels it lists), "
    "real network transports, the client side of the upgrade (C07 kernel), more than two concurrent emitters, 2..3 clients.",
    "5 (C01)")
