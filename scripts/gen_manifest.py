#!/usr/bin/env python3
"""Generates /verif/MANIFEST.json from the table below (kept next to the checks so it stays current)."""
import json, os
ROOT = os.path.dirname(os.path.dirname(os.path.abspath(__file__)))
props = [json.loads(l) for l in open(os.path.join(ROOT, 'properties.jsonl'))]
baseline = json.load(open('/root/.vp/BASELINE.json'))['cmd'] if os.path.exists('/root/.vp/BASELINE.json') else 'cd /repo && go test -mod=mod -vet=off -count=1 ./...'

TECH = ("solver-based checking of the real code: the repository's functions are executed symbolically from go/ssa (own executor), every branch, implicit panic condition and "
        "harness assertion over the symbolic inputs is an SMT-LIB2 query decided by z3 4.8.12 (cvc5 1.0 / z3 5.1 as fall-back and for sampled re-checks) for ALL values within the stated bounds; "
        "counterexamples (solver model + schedule) are replayed natively against the compiled code before they are reported")
TECH_THREADS = (" For the concurrency part the interleavings at synchronisation points are additional decision variables of the same bounded exploration (preemption-bounded, "
                "every schedule within the bound is executed symbolically; a happens-before race monitor, deadlock and held-lock monitors run on each); the solver decides the data-dependent branches on every schedule.")
THREADED = {"C02", "C03", "C04", "C06", "C07", "C12", "C14", "C16", "C17", "C18", "C19", "C01"}
TRUST = ("go/packages+go/ssa (x/tools v0.29.0) give the program; the SSA executor in /verif/engine implements Go semantics for the instructions it runs; "
         "z3 4.8.12 is sound (every counterexample is re-run natively with go test -overlay before it is reported); stubs behave as their documented contracts "
         "(listed per run in evidence coverage.stubs_used); nothing is claimed outside the per-harness bounds written in the evidence file.")

# id -> (level text, extra note, design ref)
claimed = {}
exec(open(os.path.join(ROOT, 'scripts', 'claims.py')).read())

checks = []
na = []
for p in props:
    pid = p['id']
    if pid in claimed:
        text, note, ref = claimed[pid]
        checks.append({
            "property_id": pid,
            "quick_cmd": f"/verif/bin/sv check {pid} --tier quick",
            "thorough_cmd": f"/verif/bin/sv check {pid} --tier thorough",
            "evidence_file": f"/verif/evidence/{pid}.json",
            "replay_cmd_template": "/verif/bin/sv replay {path}",
            "engine": "sv",
            "level_claimed": {"category": "other", "text": text, "design_ref": ref},
            "level_note": note + " Trusted base: " + TRUST,
            "technique": TECH + (TECH_THREADS if pid in THREADED else ""),
        })
    else:
        na.append({"property_id": pid, "reason": not_applicable.get(pid, "check not built yet (engine under construction); see DESIGN.md section 5")})

m = {
    "version": 1,
    "setup_cmd": "cd /verif/engine && GOFLAGS=-mod=mod GOPROXY=off GOSUMDB=off GOTOOLCHAIN=local go build -o /verif/bin/sv ./cmd/sv && mkdir -p /verif/.work /verif/evidence/replay",
    "hooks": {"guard": "verif", "enable": "no source hooks: harnesses are injected into the package under test with go/packages overlays (and go test -overlay for native replay); /repo is never written by a check",
              "baseline_off_cmd": baseline, "source_commits": [], "add_only": True},
    "engines": [{"name": "sv", "path": "/verif/engine", "serves_properties": sorted(claimed.keys()),
                 "kind_free_text": "own symbolic executor for go/ssa (x/tools v0.29.0): path-by-path execution with SMT bit-vector/FP/array terms, z3 -in persistent sessions, 16 workers, native replay of counterexamples"}],
    "checks": checks,
    "not_applicable": na,
    "notes": "All checks reload /repo's working tree on every run (go/packages with an Overlay), so they follow edits to the sources. Bounds and what lies outside them are written into each evidence file (coverage.harnesses[].bounds) and DESIGN.md section 5.",
}
json.dump(m, open(os.path.join(ROOT, 'MANIFEST.json'), 'w'), indent=1)
print("claimed:", sorted(claimed.keys()), "not_applicable:", [x['property_id'] for x in na])
