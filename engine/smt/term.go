// Package smt is a small SMT-LIB2 term builder with constant folding.
package smt

import (
	"fmt"
	"math"
	"math/bits"
	"strings"
)

type Kind int

const (
	KBool Kind = iota
	KBV
	KFP
	KArr // (Array (_ BitVec 64) (_ BitVec 8))
)

type Sort struct {
	K Kind
	W int // bit width (BV) or total width (FP: 32 or 64)
}

var (
	SBool = Sort{KBool, 0}
	SArr  = Sort{KArr, 0}
)

func SBV(w int) Sort { return Sort{KBV, w} }
func SFP(w int) Sort { return Sort{KFP, w} }

func (s Sort) String() string {
	switch s.K {
	case KBool:
		return "Bool"
	case KBV:
		return fmt.Sprintf("(_ BitVec %d)", s.W)
	case KFP:
		if s.W == 32 {
			return "(_ FloatingPoint 8 24)"
		}
		return "(_ FloatingPoint 11 53)"
	case KArr:
		return "(Array (_ BitVec 64) (_ BitVec 8))"
	}
	return "?"
}

type Term struct {
	Op   string
	Sort Sort
	Args []*Term
	U    uint64 // constant payload (BV value, Bool 0/1, FP bits)
	Name string // variable name
	P1   int
	P2   int
	size int
	ID   int // assigned by solver session when defined
	Gen  int // solver generation in which ID is valid
}

func (t *Term) IsConst() bool { return t.Op == "const" }
func (t *Term) IsVar() bool   { return t.Op == "var" }
func (t *Term) Size() int     { return t.size }

func mask(w int) uint64 {
	if w >= 64 {
		return ^uint64(0)
	}
	return (uint64(1) << uint(w)) - 1
}

func mk(op string, s Sort, args ...*Term) *Term {
	sz := 1
	for _, a := range args {
		sz += a.size
		if sz > 1<<30 {
			sz = 1 << 30
		}
	}
	return &Term{Op: op, Sort: s, Args: args, size: sz}
}

var (
	True  = &Term{Op: "const", Sort: SBool, U: 1, size: 1}
	False = &Term{Op: "const", Sort: SBool, U: 0, size: 1}
)

func Bool(b bool) *Term {
	if b {
		return True
	}
	return False
}

func BV(w int, v uint64) *Term {
	return &Term{Op: "const", Sort: SBV(w), U: v & mask(w), size: 1}
}

func FPBits(w int, b uint64) *Term {
	return &Term{Op: "const", Sort: SFP(w), U: b, size: 1}
}

func F64(f float64) *Term { return FPBits(64, math.Float64bits(f)) }
func F32(f float32) *Term { return FPBits(32, uint64(math.Float32bits(f))) }

func Var(name string, s Sort) *Term {
	return &Term{Op: "var", Sort: s, Name: name, size: 1}
}

// SInt returns the signed interpretation of a BV constant.
func (t *Term) SInt() int64 {
	w := t.Sort.W
	v := t.U
	if w < 64 && v&(1<<uint(w-1)) != 0 {
		v |= ^mask(w)
	}
	return int64(v)
}

func (t *Term) IsTrue() bool  { return t.Op == "const" && t.Sort.K == KBool && t.U == 1 }
func (t *Term) IsFalse() bool { return t.Op == "const" && t.Sort.K == KBool && t.U == 0 }

func same(a, b *Term) bool {
	if a == b {
		return true
	}
	if a.Op != b.Op || a.Sort != b.Sort {
		return false
	}
	switch a.Op {
	case "const":
		return a.U == b.U
	case "var":
		return a.Name == b.Name
	}
	if a.size > 24 || a.size != b.size || len(a.Args) != len(b.Args) || a.P1 != b.P1 || a.P2 != b.P2 {
		return false
	}
	for i := range a.Args {
		if !same(a.Args[i], b.Args[i]) {
			return false
		}
	}
	return true
}

// Same reports cheap structural equality.
func Same(a, b *Term) bool { return same(a, b) }

// ---- Bool ops ----

func Not(a *Term) *Term {
	if a.IsConst() {
		return Bool(a.U == 0)
	}
	if a.Op == "not" {
		return a.Args[0]
	}
	return mk("not", SBool, a)
}

func And(a, b *Term) *Term {
	if a.IsFalse() || b.IsFalse() {
		return False
	}
	if a.IsTrue() {
		return b
	}
	if b.IsTrue() {
		return a
	}
	if same(a, b) {
		return a
	}
	return mk("and", SBool, a, b)
}

func Or(a, b *Term) *Term {
	if a.IsTrue() || b.IsTrue() {
		return True
	}
	if a.IsFalse() {
		return b
	}
	if b.IsFalse() {
		return a
	}
	if same(a, b) {
		return a
	}
	return mk("or", SBool, a, b)
}

func AndN(ts ...*Term) *Term {
	r := True
	for _, t := range ts {
		r = And(r, t)
	}
	return r
}

func OrN(ts ...*Term) *Term {
	r := False
	for _, t := range ts {
		r = Or(r, t)
	}
	return r
}

func Implies(a, b *Term) *Term { return Or(Not(a), b) }

func Ite(c, a, b *Term) *Term {
	if c.IsTrue() {
		return a
	}
	if c.IsFalse() {
		return b
	}
	if same(a, b) {
		return a
	}
	if a.Sort.K == KBool {
		if a.IsTrue() && b.IsFalse() {
			return c
		}
		if a.IsFalse() && b.IsTrue() {
			return Not(c)
		}
	}
	return mk("ite", a.Sort, c, a, b)
}

func Eq(a, b *Term) *Term {
	if a.Sort != b.Sort {
		panic(fmt.Sprintf("smt.Eq sort mismatch %v %v", a.Sort, b.Sort))
	}
	if a.IsConst() && b.IsConst() && a.Sort.K != KFP {
		return Bool(a.U == b.U)
	}
	if same(a, b) && a.Sort.K != KFP {
		return True
	}
	if a.Sort.K == KBool {
		if a.IsConst() {
			if a.U == 1 {
				return b
			}
			return Not(b)
		}
		if b.IsConst() {
			if b.U == 1 {
				return a
			}
			return Not(a)
		}
	}
	// (ite c k1 k2) == k  with constants
	if b.IsConst() && a.Op == "ite" && a.Args[1].IsConst() && a.Args[2].IsConst() && a.Sort.K == KBV {
		return Ite(a.Args[0], Bool(a.Args[1].U == b.U), Bool(a.Args[2].U == b.U))
	}
	if a.IsConst() && b.Op == "ite" && b.Args[1].IsConst() && b.Args[2].IsConst() && a.Sort.K == KBV {
		return Ite(b.Args[0], Bool(b.Args[1].U == a.U), Bool(b.Args[2].U == a.U))
	}
	// zero_extend(x) == const
	if b.IsConst() && a.Op == "zext" && a.Sort.K == KBV {
		iw := a.Args[0].Sort.W
		if b.U&^mask(iw) != 0 {
			return False
		}
		return Eq(a.Args[0], BV(iw, b.U))
	}
	if a.IsConst() && b.Op == "zext" && a.Sort.K == KBV {
		return Eq(b, a)
	}
	return mk("=", SBool, a, b)
}

// ---- BV ops ----

func bin(op string, a, b *Term, f func(x, y uint64, w int) uint64) *Term {
	if a.Sort != b.Sort || a.Sort.K != KBV {
		panic(fmt.Sprintf("smt.%s sort mismatch %v %v", op, a.Sort, b.Sort))
	}
	if a.IsConst() && b.IsConst() {
		return BV(a.Sort.W, f(a.U, b.U, a.Sort.W))
	}
	return mk(op, a.Sort, a, b)
}

func sx(v uint64, w int) int64 {
	if w < 64 && v&(1<<uint(w-1)) != 0 {
		v |= ^mask(w)
	}
	return int64(v)
}

func Add(a, b *Term) *Term {
	if a.IsConst() && a.U == 0 {
		return b
	}
	if b.IsConst() && b.U == 0 {
		return a
	}
	// (x + c1) + c2
	if b.IsConst() && a.Op == "bvadd" && a.Args[1].IsConst() {
		return Add(a.Args[0], BV(a.Sort.W, a.Args[1].U+b.U))
	}
	if a.IsConst() && !b.IsConst() {
		return Add(b, a)
	}
	return bin("bvadd", a, b, func(x, y uint64, w int) uint64 { return x + y })
}
func Sub(a, b *Term) *Term {
	if b.IsConst() && b.U == 0 {
		return a
	}
	if b.IsConst() {
		return Add(a, BV(a.Sort.W, -b.U))
	}
	if same(a, b) {
		return BV(a.Sort.W, 0)
	}
	// (x + c) - x = c
	if a.Op == "bvadd" && a.Args[1].IsConst() && same(a.Args[0], b) {
		return a.Args[1]
	}
	return bin("bvsub", a, b, func(x, y uint64, w int) uint64 { return x - y })
}
func Mul(a, b *Term) *Term {
	if a.IsConst() && a.U == 1 {
		return b
	}
	if b.IsConst() && b.U == 1 {
		return a
	}
	if (a.IsConst() && a.U == 0) || (b.IsConst() && b.U == 0) {
		return BV(a.Sort.W, 0)
	}
	return bin("bvmul", a, b, func(x, y uint64, w int) uint64 { return x * y })
}
func UDiv(a, b *Term) *Term {
	if b.IsConst() && b.U == 1 {
		return a
	}
	return bin("bvudiv", a, b, func(x, y uint64, w int) uint64 {
		if y == 0 {
			return mask(w)
		}
		return x / y
	})
}
func URem(a, b *Term) *Term {
	return bin("bvurem", a, b, func(x, y uint64, w int) uint64 {
		if y == 0 {
			return x
		}
		return x % y
	})
}
func SDiv(a, b *Term) *Term {
	if b.IsConst() && b.U == 1 {
		return a
	}
	return bin("bvsdiv", a, b, func(x, y uint64, w int) uint64 {
		sxv, syv := sx(x, w), sx(y, w)
		if syv == 0 {
			if sxv < 0 {
				return 1
			}
			return mask(w)
		}
		if syv == -1 {
			return uint64(-sxv)
		}
		return uint64(sxv / syv)
	})
}
func SRem(a, b *Term) *Term {
	return bin("bvsrem", a, b, func(x, y uint64, w int) uint64 {
		sxv, syv := sx(x, w), sx(y, w)
		if syv == 0 {
			return x
		}
		if syv == -1 {
			return 0
		}
		return uint64(sxv % syv)
	})
}
func BvAnd(a, b *Term) *Term {
	if a.IsConst() && a.U == mask(a.Sort.W) {
		return b
	}
	if b.IsConst() && b.U == mask(b.Sort.W) {
		return a
	}
	if (a.IsConst() && a.U == 0) || (b.IsConst() && b.U == 0) {
		return BV(a.Sort.W, 0)
	}
	return bin("bvand", a, b, func(x, y uint64, w int) uint64 { return x & y })
}
func BvOr(a, b *Term) *Term {
	if a.IsConst() && a.U == 0 {
		return b
	}
	if b.IsConst() && b.U == 0 {
		return a
	}
	return bin("bvor", a, b, func(x, y uint64, w int) uint64 { return x | y })
}
func BvXor(a, b *Term) *Term {
	if a.IsConst() && a.U == 0 {
		return b
	}
	if b.IsConst() && b.U == 0 {
		return a
	}
	return bin("bvxor", a, b, func(x, y uint64, w int) uint64 { return x ^ y })
}
func Shl(a, b *Term) *Term {
	if b.IsConst() && b.U == 0 {
		return a
	}
	return bin("bvshl", a, b, func(x, y uint64, w int) uint64 {
		if y >= uint64(w) {
			return 0
		}
		return x << y
	})
}
func LShr(a, b *Term) *Term {
	if b.IsConst() && b.U == 0 {
		return a
	}
	return bin("bvlshr", a, b, func(x, y uint64, w int) uint64 {
		if y >= uint64(w) {
			return 0
		}
		return x >> y
	})
}
func AShr(a, b *Term) *Term {
	if b.IsConst() && b.U == 0 {
		return a
	}
	return bin("bvashr", a, b, func(x, y uint64, w int) uint64 {
		s := sx(x, w)
		if y >= uint64(w) {
			if s < 0 {
				return mask(w)
			}
			return 0
		}
		return uint64(s >> y)
	})
}
func BvNot(a *Term) *Term {
	if a.IsConst() {
		return BV(a.Sort.W, ^a.U)
	}
	return mk("bvnot", a.Sort, a)
}
func Neg(a *Term) *Term {
	if a.IsConst() {
		return BV(a.Sort.W, -a.U)
	}
	return mk("bvneg", a.Sort, a)
}

func cmp(op string, a, b *Term, f func(x, y uint64, w int) bool) *Term {
	if a.Sort != b.Sort || a.Sort.K != KBV {
		panic(fmt.Sprintf("smt.%s sort mismatch %v %v", op, a.Sort, b.Sort))
	}
	if a.IsConst() && b.IsConst() {
		return Bool(f(a.U, b.U, a.Sort.W))
	}
	return mk(op, SBool, a, b)
}

func Ult(a, b *Term) *Term {
	if b.IsConst() && b.U == 0 {
		return False
	}
	if same(a, b) {
		return False
	}
	// zext(x) < c where c > max(x)
	if b.IsConst() && a.Op == "zext" && b.U > mask(a.Args[0].Sort.W) {
		return True
	}
	return cmp("bvult", a, b, func(x, y uint64, w int) bool { return x < y })
}
func Ule(a, b *Term) *Term {
	if a.IsConst() && a.U == 0 {
		return True
	}
	if same(a, b) {
		return True
	}
	if b.IsConst() && a.Op == "zext" && b.U >= mask(a.Args[0].Sort.W) {
		return True
	}
	return cmp("bvule", a, b, func(x, y uint64, w int) bool { return x <= y })
}
func Slt(a, b *Term) *Term {
	if same(a, b) {
		return False
	}
	if a.Op == "zext" && b.IsConst() && a.Args[0].Sort.W < a.Sort.W {
		if sx(b.U, b.Sort.W) > int64(mask(a.Args[0].Sort.W)) {
			return True
		}
		if sx(b.U, b.Sort.W) <= 0 {
			return False
		}
	}
	if b.Op == "zext" && a.IsConst() && b.Args[0].Sort.W < b.Sort.W {
		if sx(a.U, a.Sort.W) < 0 {
			return True
		}
		if sx(a.U, a.Sort.W) >= int64(mask(b.Args[0].Sort.W)) {
			return False
		}
	}
	return cmp("bvslt", a, b, func(x, y uint64, w int) bool { return sx(x, w) < sx(y, w) })
}
func Sle(a, b *Term) *Term {
	if same(a, b) {
		return True
	}
	return Not(Slt(b, a))
}

func Extract(hi, lo int, a *Term) *Term {
	w := hi - lo + 1
	if a.IsConst() {
		return BV(w, a.U>>uint(lo))
	}
	if lo == 0 && w == a.Sort.W {
		return a
	}
	if (a.Op == "zext" || a.Op == "sext") && lo == 0 {
		iw := a.Args[0].Sort.W
		if w == iw {
			return a.Args[0]
		}
		if w < iw {
			return Extract(hi, 0, a.Args[0])
		}
		if a.Op == "zext" {
			return ZExt(w, a.Args[0])
		}
		return SExt(w, a.Args[0])
	}
	t := mk("extract", SBV(w), a)
	t.P1, t.P2 = hi, lo
	return t
}

// ZExt zero-extends a to width w.
func ZExt(w int, a *Term) *Term {
	if a.Sort.W == w {
		return a
	}
	if a.Sort.W > w {
		return Extract(w-1, 0, a)
	}
	if a.IsConst() {
		return BV(w, a.U)
	}
	if a.Op == "zext" {
		return ZExt(w, a.Args[0])
	}
	t := mk("zext", SBV(w), a)
	t.P1 = w - a.Sort.W
	return t
}

// SExt sign-extends a to width w.
func SExt(w int, a *Term) *Term {
	if a.Sort.W == w {
		return a
	}
	if a.Sort.W > w {
		return Extract(w-1, 0, a)
	}
	if a.IsConst() {
		return BV(w, uint64(sx(a.U, a.Sort.W)))
	}
	if a.Op == "zext" {
		return ZExt(w, a.Args[0])
	}
	t := mk("sext", SBV(w), a)
	t.P1 = w - a.Sort.W
	return t
}

func Concat(a, b *Term) *Term {
	w := a.Sort.W + b.Sort.W
	if a.IsConst() && b.IsConst() && w <= 64 {
		return BV(w, a.U<<uint(b.Sort.W)|b.U)
	}
	if a.IsConst() && a.U == 0 {
		return ZExt(w, b)
	}
	return mk("concat", SBV(w), a, b)
}

// ---- arrays ----

func Select(arr, idx *Term) *Term {
	// read-over-write with constant indices
	for arr.Op == "store" {
		i := arr.Args[1]
		if same(i, idx) {
			return arr.Args[2]
		}
		if i.IsConst() && idx.IsConst() {
			arr = arr.Args[0]
			continue
		}
		break
	}
	return mk("select", SBV(8), arr, idx)
}

func Store(arr, idx, v *Term) *Term { return mk("store", SArr, arr, idx, v) }

// ---- floating point ----

func fconst(t *Term) (float64, bool) {
	if !t.IsConst() {
		return 0, false
	}
	if t.Sort.W == 32 {
		return float64(math.Float32frombits(uint32(t.U))), true
	}
	return math.Float64frombits(t.U), true
}

func fmkconst(w int, f float64) *Term {
	if w == 32 {
		return F32(float32(f))
	}
	return F64(f)
}

func FBin(op string, a, b *Term) *Term {
	if a.Sort != b.Sort {
		panic("smt.FBin sort mismatch")
	}
	x, ok1 := fconst(a)
	y, ok2 := fconst(b)
	if ok1 && ok2 {
		var r float64
		switch op {
		case "fp.add":
			r = x + y
		case "fp.sub":
			r = x - y
		case "fp.mul":
			r = x * y
		case "fp.div":
			r = x / y
		default:
			goto sym
		}
		if a.Sort.W == 32 {
			// float32 arithmetic: compute in float32
			xf, yf := float32(x), float32(y)
			var rf float32
			switch op {
			case "fp.add":
				rf = xf + yf
			case "fp.sub":
				rf = xf - yf
			case "fp.mul":
				rf = xf * yf
			case "fp.div":
				rf = xf / yf
			}
			return F32(rf)
		}
		return F64(r)
	}
sym:
	return mk(op, a.Sort, a, b)
}

func FCmp(op string, a, b *Term) *Term {
	x, ok1 := fconst(a)
	y, ok2 := fconst(b)
	if ok1 && ok2 {
		switch op {
		case "fp.lt":
			return Bool(x < y)
		case "fp.leq":
			return Bool(x <= y)
		case "fp.gt":
			return Bool(x > y)
		case "fp.geq":
			return Bool(x >= y)
		case "fp.eq":
			return Bool(x == y)
		}
	}
	return mk(op, SBool, a, b)
}

func FNeg(a *Term) *Term {
	if x, ok := fconst(a); ok {
		return fmkconst(a.Sort.W, -x)
	}
	return mk("fp.neg", a.Sort, a)
}

func FIsNaN(a *Term) *Term {
	if x, ok := fconst(a); ok {
		return Bool(x != x)
	}
	return mk("fp.isNaN", SBool, a)
}

func FIsInf(a *Term) *Term {
	if x, ok := fconst(a); ok {
		return Bool(math.IsInf(x, 0))
	}
	return mk("fp.isInfinite", SBool, a)
}

// FFloor is math.Floor.
func FFloor(a *Term) *Term {
	if x, ok := fconst(a); ok {
		return fmkconst(a.Sort.W, math.Floor(x))
	}
	return mk("fp.floor", a.Sort, a)
}

// FTrunc is math.Trunc.
func FTrunc(a *Term) *Term {
	if x, ok := fconst(a); ok {
		return fmkconst(a.Sort.W, math.Trunc(x))
	}
	return mk("fp.trunc", a.Sort, a)
}

// FToFP converts between float widths.
func FToFP(w int, a *Term) *Term {
	if a.Sort.W == w {
		return a
	}
	if x, ok := fconst(a); ok {
		return fmkconst(w, x)
	}
	return mk("fp.to_fp", SFP(w), a)
}

// SBVToFP converts a signed bit-vector to float (RNE).
func SBVToFP(w int, a *Term) *Term {
	if a.IsConst() {
		return fmkconst(w, float64(a.SInt()))
	}
	return mk("fp.from_sbv", SFP(w), a)
}

// UBVToFP converts an unsigned bit-vector to float (RNE).
func UBVToFP(w int, a *Term) *Term {
	if a.IsConst() {
		return fmkconst(w, float64(a.U))
	}
	return mk("fp.from_ubv", SFP(w), a)
}

// FToSBVRaw is fp.to_sbv RTZ (unspecified when out of range; callers guard it).
func FToSBVRaw(w int, a *Term) *Term {
	return mk("fp.to_sbv", SBV(w), a)
}

func FToUBVRaw(w int, a *Term) *Term {
	return mk("fp.to_ubv", SBV(w), a)
}

// FToBits reinterprets a float as its IEEE bits (only for constants; symbolic is unsupported).
func FToBits(a *Term) (*Term, bool) {
	if a.IsConst() {
		return BV(a.Sort.W, a.U), true
	}
	return nil, false
}

// ---- printing ----

func (t *Term) head() string {
	switch t.Op {
	case "extract":
		return fmt.Sprintf("(_ extract %d %d)", t.P1, t.P2)
	case "zext":
		return fmt.Sprintf("(_ zero_extend %d)", t.P1)
	case "sext":
		return fmt.Sprintf("(_ sign_extend %d)", t.P1)
	case "fp.add", "fp.sub", "fp.mul", "fp.div":
		return t.Op + " RNE"
	case "fp.floor":
		return "fp.roundToIntegral RTN"
	case "fp.trunc":
		return "fp.roundToIntegral RTZ"
	case "fp.to_fp", "fp.from_sbv":
		if t.Sort.W == 32 {
			return "(_ to_fp 8 24) RNE"
		}
		return "(_ to_fp 11 53) RNE"
	case "fp.from_ubv":
		if t.Sort.W == 32 {
			return "(_ to_fp_unsigned 8 24) RNE"
		}
		return "(_ to_fp_unsigned 11 53) RNE"
	case "fp.to_sbv":
		return fmt.Sprintf("(_ fp.to_sbv %d) RTZ", t.Sort.W)
	case "fp.to_ubv":
		return fmt.Sprintf("(_ fp.to_ubv %d) RTZ", t.Sort.W)
	}
	return t.Op
}

// ConstString renders a constant.
func (t *Term) ConstString() string {
	switch t.Sort.K {
	case KBool:
		if t.U == 1 {
			return "true"
		}
		return "false"
	case KBV:
		return fmt.Sprintf("(_ bv%d %d)", t.U, t.Sort.W)
	case KFP:
		if t.Sort.W == 32 {
			return fmt.Sprintf("((_ to_fp 8 24) #x%08x)", t.U)
		}
		return fmt.Sprintf("((_ to_fp 11 53) #x%016x)", t.U)
	}
	return "?"
}

// String renders the full tree (no sharing); use only for small terms / debugging.
func (t *Term) String() string {
	var sb strings.Builder
	t.write(&sb, 0)
	return sb.String()
}

func (t *Term) write(sb *strings.Builder, depth int) {
	switch t.Op {
	case "const":
		sb.WriteString(t.ConstString())
		return
	case "var":
		sb.WriteString(t.Name)
		return
	}
	if depth > 200 {
		sb.WriteString("...")
		return
	}
	sb.WriteByte('(')
	sb.WriteString(t.head())
	for _, a := range t.Args {
		sb.WriteByte(' ')
		a.write(sb, depth+1)
	}
	sb.WriteByte(')')
}

// Vars collects the variables occurring in t.
func (t *Term) Vars(seen map[*Term]bool, out map[string]*Term) {
	if seen[t] {
		return
	}
	seen[t] = true
	if t.Op == "var" {
		out[t.Name] = t
		return
	}
	for _, a := range t.Args {
		a.Vars(seen, out)
	}
}

// HasVars reports whether any symbolic variable occurs in t.
func (t *Term) HasVars() bool {
	if t.Op == "var" {
		return true
	}
	if t.Op == "const" {
		return false
	}
	for _, a := range t.Args {
		if a.HasVars() {
			return true
		}
	}
	return false
}

var _ = bits.Len
