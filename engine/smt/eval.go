package smt

// Eval evaluates t under a model (variable name -> value). ok=false if t contains something the evaluator does not
// cover (floating point, arrays, unknown variables).
func (t *Term) Eval(model map[string]uint64, memo map[*Term]uint64) (uint64, bool) {
	switch t.Op {
	case "const":
		if t.Sort.K == KFP {
			return 0, false
		}
		return t.U, true
	case "var":
		if t.Sort.K == KFP || t.Sort.K == KArr {
			return 0, false
		}
		// a variable the model does not mention was created after the model was computed, hence is unconstrained
		// by the path condition the model satisfies: any value (0) extends the model
		v := model[t.Name]
		return v & maskOf(t.Sort), true
	}
	if v, ok := memo[t]; ok {
		return v, true
	}
	if t.Sort.K == KFP || t.Sort.K == KArr {
		return 0, false
	}
	var a [3]uint64
	for i, x := range t.Args {
		if i >= 3 {
			return 0, false
		}
		if x.Sort.K == KFP || x.Sort.K == KArr {
			return 0, false
		}
		v, ok := x.Eval(model, memo)
		if !ok {
			return 0, false
		}
		a[i] = v
	}
	w := 0
	if len(t.Args) > 0 {
		w = t.Args[0].Sort.W
	}
	b2u := func(b bool) uint64 {
		if b {
			return 1
		}
		return 0
	}
	var r uint64
	switch t.Op {
	case "not":
		r = b2u(a[0] == 0)
	case "and":
		r = b2u(a[0] != 0 && a[1] != 0)
	case "or":
		r = b2u(a[0] != 0 || a[1] != 0)
	case "=":
		r = b2u(a[0] == a[1])
	case "ite":
		if a[0] != 0 {
			r = a[1]
		} else {
			r = a[2]
		}
	case "bvadd":
		r = a[0] + a[1]
	case "bvsub":
		r = a[0] - a[1]
	case "bvmul":
		r = a[0] * a[1]
	case "bvudiv":
		if a[1] == 0 {
			r = mask(w)
		} else {
			r = a[0] / a[1]
		}
	case "bvurem":
		if a[1] == 0 {
			r = a[0]
		} else {
			r = a[0] % a[1]
		}
	case "bvsdiv":
		x, y := sx(a[0], w), sx(a[1], w)
		switch {
		case y == 0:
			if x < 0 {
				r = 1
			} else {
				r = mask(w)
			}
		case y == -1:
			r = uint64(-x)
		default:
			r = uint64(x / y)
		}
	case "bvsrem":
		x, y := sx(a[0], w), sx(a[1], w)
		switch {
		case y == 0:
			r = a[0]
		case y == -1:
			r = 0
		default:
			r = uint64(x % y)
		}
	case "bvand":
		r = a[0] & a[1]
	case "bvor":
		r = a[0] | a[1]
	case "bvxor":
		r = a[0] ^ a[1]
	case "bvnot":
		r = ^a[0]
	case "bvneg":
		r = -a[0]
	case "bvshl":
		if a[1] >= uint64(w) {
			r = 0
		} else {
			r = a[0] << a[1]
		}
	case "bvlshr":
		if a[1] >= uint64(w) {
			r = 0
		} else {
			r = a[0] >> a[1]
		}
	case "bvashr":
		s := sx(a[0], w)
		if a[1] >= uint64(w) {
			if s < 0 {
				r = mask(w)
			} else {
				r = 0
			}
		} else {
			r = uint64(s >> a[1])
		}
	case "bvult":
		r = b2u(a[0] < a[1])
	case "bvule":
		r = b2u(a[0] <= a[1])
	case "bvslt":
		r = b2u(sx(a[0], w) < sx(a[1], w))
	case "extract":
		r = a[0] >> uint(t.P2)
	case "zext":
		r = a[0]
	case "sext":
		r = uint64(sx(a[0], w))
	case "concat":
		if t.Sort.W > 64 {
			return 0, false
		}
		r = a[0]<<uint(t.Args[1].Sort.W) | a[1]
	default:
		return 0, false
	}
	r &= maskOf(t.Sort)
	memo[t] = r
	return r, true
}

func maskOf(s Sort) uint64 {
	if s.K == KBool {
		return 1
	}
	return mask(s.W)
}
