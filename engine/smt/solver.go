package smt

import (
	"bufio"
	"fmt"
	"io"
	"os"
	"os/exec"
	"strconv"
	"strings"
	"sync/atomic"
	"time"
)

type Result int

const (
	Sat Result = iota
	Unsat
	Unknown
)

func (r Result) String() string {
	switch r {
	case Sat:
		return "sat"
	case Unsat:
		return "unsat"
	}
	return "unknown"
}

type Stats struct {
	Queries   int
	Sat       int
	Unsat     int
	Unknown   int
	Errors    int
	OneShot   int
	SolveTime time.Duration
}

// Solver is one persistent solver process driven over stdin/stdout.
type Solver struct {
	Kind      string // z3 | z3-new | cvc5
	cmd       *exec.Cmd
	in        io.WriteCloser
	out       *bufio.Reader
	gen       int
	nextID    int
	perm      []string
	declared  map[string]bool
	marker    int
	TimeoutMs int
	Stats     Stats
	Trace     io.Writer
	dead      bool
	hasFP     bool
	OneShotMs int
	Quick     bool // feasibility mode: one solver, short limit (unknown keeps the branch, which is sound)
	LastErr   string
}

var genCounter int64

func NewSolver(kind string, timeoutMs int) (*Solver, error) {
	s := &Solver{Kind: kind, TimeoutMs: timeoutMs}
	if err := s.start(); err != nil {
		return nil, err
	}
	return s, nil
}

func (s *Solver) start() error {
	var c *exec.Cmd
	switch s.Kind {
	case "z3":
		c = exec.Command("/usr/bin/z3", "-in")
	case "z3-new":
		c = exec.Command("z3-new", "-in")
	case "cvc5":
		c = exec.Command("cvc5", "--incremental", "--lang=smt2", fmt.Sprintf("--tlimit-per=%d", s.TimeoutMs))
	default:
		return fmt.Errorf("unknown solver %s", s.Kind)
	}
	in, err := c.StdinPipe()
	if err != nil {
		return err
	}
	out, err := c.StdoutPipe()
	if err != nil {
		return err
	}
	c.Stderr = os.Stderr
	if err := c.Start(); err != nil {
		return err
	}
	s.cmd, s.in, s.out = c, in, bufio.NewReaderSize(out, 1<<16)
	s.dead = false
	s.Reset()
	return nil
}

func (s *Solver) Close() {
	if s.cmd != nil {
		s.in.Close()
		s.cmd.Process.Kill()
		s.cmd.Wait()
		s.cmd = nil
	}
}

func (s *Solver) send(line string) {
	if s.Trace != nil {
		fmt.Fprintln(s.Trace, line)
	}
	if s.dead {
		return
	}
	if _, err := io.WriteString(s.in, line+"\n"); err != nil {
		s.dead = true
	}
}

func (s *Solver) preamble() []string {
	switch s.Kind {
	case "cvc5":
		return []string{"(set-option :produce-models true)", "(set-logic ALL)"}
	default:
		return []string{fmt.Sprintf("(set-option :timeout %d)", s.TimeoutMs), "(set-option :produce-models true)"}
	}
}

// Reset clears all assertions and definitions.
func (s *Solver) Reset() {
	if s.dead {
		s.Close()
		if err := s.start(); err != nil {
			return
		}
		return
	}
	s.gen = int(atomic.AddInt64(&genCounter, 1))
	s.nextID = 0
	s.hasFP = false
	s.perm = s.perm[:0]
	s.declared = map[string]bool{}
	if s.cmd != nil {
		s.send("(reset)")
		for _, p := range s.preamble() {
			s.send(p)
		}
	}
}

func (s *Solver) permCmd(line string) {
	s.perm = append(s.perm, line)
	s.send(line)
}

// ref returns the text naming t in the current session, defining sub-terms as needed.
func (s *Solver) ref(t *Term) string {
	switch t.Op {
	case "const":
		return t.ConstString()
	case "var":
		if !s.declared[t.Name] {
			s.declared[t.Name] = true
			s.permCmd(fmt.Sprintf("(declare-const %s %s)", t.Name, t.Sort))
		}
		return t.Name
	}
	if t.Gen == s.gen && t.ID > 0 {
		return "t" + strconv.Itoa(t.ID)
	}
	if strings.HasPrefix(t.Op, "fp.") || t.Sort.K == KFP {
		s.hasFP = true
	}
	var sb strings.Builder
	sb.WriteByte('(')
	sb.WriteString(t.head())
	for _, a := range t.Args {
		sb.WriteByte(' ')
		sb.WriteString(s.ref(a))
	}
	sb.WriteByte(')')
	if t.size <= 5 {
		return sb.String()
	}
	s.nextID++
	t.ID, t.Gen = s.nextID, s.gen
	name := "t" + strconv.Itoa(t.ID)
	s.permCmd(fmt.Sprintf("(define-fun %s () %s %s)", name, t.Sort, sb.String()))
	return name
}

// Assert adds a permanent assertion.
func (s *Solver) Assert(t *Term) {
	if t.IsTrue() {
		return
	}
	r := s.ref(t)
	s.permCmd("(assert " + r + ")")
}

func (s *Solver) readUntilMarker() []string {
	s.marker++
	m := fmt.Sprintf("<<END-%d>>", s.marker)
	s.send(fmt.Sprintf("(echo \"%s\")", m))
	var lines []string
	for {
		if s.dead {
			return append(lines, "(error \"solver died\")")
		}
		line, err := s.out.ReadString('\n')
		if err != nil {
			s.dead = true
			return append(lines, "(error \"solver died: "+err.Error()+"\")")
		}
		line = strings.TrimSpace(line)
		if strings.Contains(line, m) {
			return lines
		}
		if line != "" {
			lines = append(lines, line)
		}
	}
}

func (s *Solver) classify(lines []string) Result {
	res := Unknown
	found := false
	for _, l := range lines {
		if strings.HasPrefix(l, "(error") {
			s.Stats.Errors++
			s.LastErr = l
			return Unknown
		}
		switch l {
		case "sat":
			res, found = Sat, true
		case "unsat":
			res, found = Unsat, true
		case "unknown", "timeout":
			res, found = Unknown, true
		}
	}
	if !found {
		s.LastErr = strings.Join(lines, " | ")
	}
	return res
}

// Check asks whether (permanent assertions ∧ extra) is satisfiable.
func (s *Solver) Check(extra *Term) Result {
	if extra != nil && extra.IsFalse() {
		return Unsat
	}
	var r string
	if extra != nil && !extra.IsTrue() {
		r = s.ref(extra)
	}
	t0 := time.Now()
	if s.hasFP {
		res, _ := s.oneShot(r, nil)
		s.account(res, time.Since(t0))
		return res
	}
	s.send("(push 1)")
	if r != "" {
		s.send("(assert " + r + ")")
	}
	s.send("(check-sat)")
	lines := s.readUntilMarker()
	s.send("(pop 1)")
	res := s.classify(lines)
	if res == Unknown && s.LastErr == "" {
		res, _ = s.oneShot(r, nil)
	}
	s.account(res, time.Since(t0))
	return res
}

// oneShot runs the current assertions plus extraRef in fresh solver processes (z3's non-incremental strategies decide
// floating-point queries that its incremental core does not); falls back to z3-new and cvc5 on unknown.
func (s *Solver) oneShot(extraRef string, names []string) (Result, map[string]uint64) {
	ms := s.OneShotMs
	if ms == 0 {
		ms = 60000
	}
	kinds := []string{"z3", "cvc5", "z3-new"}
	if s.Quick {
		kinds = kinds[:1]
	}
	for _, kind := range kinds {
		var sb strings.Builder
		if kind == "cvc5" {
			sb.WriteString("(set-logic ALL)\n(set-option :produce-models true)\n")
		}
		for _, p := range s.perm {
			sb.WriteString(p)
			sb.WriteByte('\n')
		}
		if extraRef != "" {
			sb.WriteString("(assert " + extraRef + ")\n")
		}
		sb.WriteString("(check-sat)\n")
		if len(names) > 0 {
			sb.WriteString("(get-value (" + strings.Join(names, " ") + "))\n")
		}
		res, out := RunScript(kind, sb.String(), ms)
		s.Stats.OneShot++
		if res == Unknown {
			continue
		}
		model := map[string]uint64{}
		if res == Sat && len(names) > 0 {
			if i := strings.Index(out, "(("); i >= 0 {
				parseValues(out[i:], model)
			}
		}
		return res, model
	}
	return Unknown, nil
}

func (s *Solver) account(res Result, d time.Duration) {
	s.Stats.Queries++
	s.Stats.SolveTime += d
	switch res {
	case Sat:
		s.Stats.Sat++
	case Unsat:
		s.Stats.Unsat++
	default:
		s.Stats.Unknown++
	}
}

// Model asks for a model of (permanent ∧ extra) restricted to vars.
func (s *Solver) Model(extra *Term, vars []*Term) (Result, map[string]uint64) {
	var r string
	if extra != nil && !extra.IsTrue() {
		r = s.ref(extra)
	}
	var names []string
	for _, v := range vars {
		names = append(names, s.ref(v))
	}
	t0 := time.Now()
	if s.hasFP {
		res, model := s.oneShot(r, names)
		s.account(res, time.Since(t0))
		return res, model
	}
	s.send("(push 1)")
	if r != "" {
		s.send("(assert " + r + ")")
	}
	s.send("(check-sat)")
	lines := s.readUntilMarker()
	res := s.classify(lines)
	s.account(res, time.Since(t0))
	model := map[string]uint64{}
	if res == Sat && len(names) > 0 {
		// ask in chunks to keep lines manageable
		for i := 0; i < len(names); i += 64 {
			j := i + 64
			if j > len(names) {
				j = len(names)
			}
			s.send("(get-value (" + strings.Join(names[i:j], " ") + "))")
			out := strings.Join(s.readUntilMarker(), " ")
			parseValues(out, model)
		}
	}
	s.send("(pop 1)")
	return res, model
}

// Script renders a standalone SMT-LIB2 script equivalent to Check(extra), for cross-checking.
func (s *Solver) Script(extra *Term, kind string) string {
	var r string
	if extra != nil && !extra.IsTrue() {
		r = s.ref(extra)
	}
	var sb strings.Builder
	if kind == "cvc5" {
		sb.WriteString("(set-logic ALL)\n")
	}
	for _, p := range s.perm {
		sb.WriteString(p)
		sb.WriteByte('\n')
	}
	if r != "" {
		sb.WriteString("(assert " + r + ")\n")
	}
	sb.WriteString("(check-sat)\n")
	return sb.String()
}

// RunScript runs a one-shot solver on a script.
func RunScript(kind, script string, timeoutMs int) (Result, string) {
	var c *exec.Cmd
	switch kind {
	case "z3":
		c = exec.Command("/usr/bin/z3", "-in", fmt.Sprintf("-t:%d", timeoutMs))
	case "z3-new":
		c = exec.Command("z3-new", "-in", fmt.Sprintf("-t:%d", timeoutMs))
	case "cvc5":
		c = exec.Command("cvc5", "--lang=smt2", fmt.Sprintf("--tlimit=%d", timeoutMs))
	}
	c.Stdin = strings.NewReader(script)
	out, _ := c.CombinedOutput()
	txt := strings.TrimSpace(string(out))
	res := Unknown
	for _, l := range strings.Split(txt, "\n") {
		l = strings.TrimSpace(l)
		if strings.HasPrefix(l, "(error") {
			// an error before the verdict makes the answer untrustworthy; after "unsat" it is the expected
			// complaint of get-value about a missing model
			if res == Unsat && strings.Contains(l, "model") {
				continue
			}
			return Unknown, txt
		}
		switch l {
		case "sat":
			res = Sat
		case "unsat":
			res = Unsat
		}
	}
	return res, txt
}

// ---- s-expression value parsing ----

type sexp struct {
	atom string
	list []*sexp
}

func parseSexp(s string, i int) (*sexp, int) {
	for i < len(s) && (s[i] == ' ' || s[i] == '\n' || s[i] == '\t' || s[i] == '\r') {
		i++
	}
	if i >= len(s) {
		return nil, i
	}
	if s[i] == '(' {
		i++
		e := &sexp{}
		for {
			for i < len(s) && (s[i] == ' ' || s[i] == '\n' || s[i] == '\t' || s[i] == '\r') {
				i++
			}
			if i >= len(s) {
				return e, i
			}
			if s[i] == ')' {
				return e, i + 1
			}
			var c *sexp
			c, i = parseSexp(s, i)
			if c == nil {
				return e, i
			}
			e.list = append(e.list, c)
		}
	}
	j := i
	for j < len(s) && s[j] != ' ' && s[j] != '(' && s[j] != ')' && s[j] != '\n' {
		j++
	}
	return &sexp{atom: s[i:j]}, j
}

func sexpValue(e *sexp) (uint64, bool) {
	if e.list == nil {
		a := e.atom
		switch {
		case a == "true":
			return 1, true
		case a == "false":
			return 0, true
		case strings.HasPrefix(a, "#x"):
			v, err := strconv.ParseUint(a[2:], 16, 64)
			return v, err == nil
		case strings.HasPrefix(a, "#b"):
			v, err := strconv.ParseUint(a[2:], 2, 64)
			return v, err == nil
		}
		return 0, false
	}
	// (_ bvN w)
	if len(e.list) == 3 && e.list[0].atom == "_" && strings.HasPrefix(e.list[1].atom, "bv") {
		v, err := strconv.ParseUint(e.list[1].atom[2:], 10, 64)
		return v, err == nil
	}
	// (fp sign exp mant)
	if len(e.list) == 4 && e.list[0].atom == "fp" {
		sg, ok1 := sexpValue(e.list[1])
		ex, ok2 := sexpValue(e.list[2])
		mn, ok3 := sexpValue(e.list[3])
		if !(ok1 && ok2 && ok3) {
			return 0, false
		}
		mw := bitlen(e.list[3].atom)
		ew := bitlen(e.list[2].atom)
		return sg<<uint(ew+mw) | ex<<uint(mw) | mn, true
	}
	// (_ +zero 11 53) etc.
	if len(e.list) == 4 && e.list[0].atom == "_" {
		ew, _ := strconv.Atoi(e.list[2].atom)
		sw, _ := strconv.Atoi(e.list[3].atom)
		mw := sw - 1
		switch e.list[1].atom {
		case "+zero":
			return 0, true
		case "-zero":
			return 1 << uint(ew+mw), true
		case "+oo":
			return ((1 << uint(ew)) - 1) << uint(mw), true
		case "-oo":
			return 1<<uint(ew+mw) | ((1<<uint(ew))-1)<<uint(mw), true
		case "NaN":
			return ((1<<uint(ew))-1)<<uint(mw) | 1<<uint(mw-1), true
		}
	}
	return 0, false
}

func bitlen(a string) int {
	if strings.HasPrefix(a, "#x") {
		return 4 * (len(a) - 2)
	}
	if strings.HasPrefix(a, "#b") {
		return len(a) - 2
	}
	return 0
}

func parseValues(out string, model map[string]uint64) {
	e, _ := parseSexp(out, 0)
	if e == nil {
		return
	}
	for _, p := range e.list {
		if len(p.list) == 2 && p.list[0].list == nil {
			if v, ok := sexpValue(p.list[1]); ok {
				model[p.list[0].atom] = v
			}
		}
	}
}
