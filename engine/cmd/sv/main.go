// Command sv is the symbolic verifier driver: it loads the repository under test with harness overlays,
// executes harness functions symbolically (go/ssa -> SMT), replays counterexamples natively and writes evidence.
package main

import (
	"encoding/json"
	"regexp"
	"flag"
	"fmt"
	"os"
	"path/filepath"
	"runtime"
	"sort"
	"strconv"
	"strings"
	"time"

	"verif/engine/exec"
)

var (
	verifRoot = envOr("VERIF_ROOT", "/verif")
	repoDir   = envOr("VERIF_REPO", "/repo")
)

func envOr(k, d string) string {
	if v := os.Getenv(k); v != "" {
		return v
	}
	return d
}

func main() {
	if len(os.Args) < 2 {
		fmt.Fprintln(os.Stderr, "usage: sv check <prop> [--tier quick|thorough] | sv replay <file>")
		os.Exit(2)
	}
	switch os.Args[1] {
	case "check":
		os.Exit(cmdCheck(os.Args[2:]))
	case "replay":
		os.Exit(cmdReplay(os.Args[2:]))
	case "selftest":
		os.Exit(cmdSelftest(os.Args[2:]))
	default:
		fmt.Fprintln(os.Stderr, "unknown command", os.Args[1])
		os.Exit(2)
	}
}

type harnessFile struct {
	pkgRel string // package dir relative to repo root ("" = root)
	path   string // file under /verif/harness
}

// harnessFilesFor finds harness files for a property: /verif/harness/<pkgRel>/zz_verif_<PROP>*.go,
// plus shared helper files zz_verif_common*.go in the same directories.
// staleHarness lists harness files that no longer compile against the current tree (an internal function they call
// changed its signature, for instance): they are left out, reported, and counted as inconclusive.
var staleHarness = map[string]string{}

func harnessFilesFor(prop string) map[string][]string {
	out := map[string][]string{}
	root := filepath.Join(verifRoot, "harness")
	filepath.Walk(root, func(p string, info os.FileInfo, err error) error {
		if err != nil || info.IsDir() {
			return nil
		}
		rel, _ := filepath.Rel(root, p)
		dir := filepath.Dir(rel)
		if dir == "rt" {
			return nil
		}
		base := filepath.Base(p)
		if _, stale := staleHarness[p]; stale {
			return nil
		}
		if strings.HasPrefix(base, "zz_verif_"+prop+"_") || base == "zz_verif_"+prop+".go" {
			if dir == "root" {
				dir = ""
			}
			out[dir] = append(out[dir], p)
		}
		return nil
	})
	// add common files
	for dir := range out {
		d := dir
		if d == "" {
			d = "root"
		}
		matches, _ := filepath.Glob(filepath.Join(root, d, "zz_verif_common*.go"))
		out[dir] = append(out[dir], matches...)
	}
	return out
}

func packageName(dir string) (string, error) {
	ents, err := os.ReadDir(dir)
	if err != nil {
		return "", err
	}
	for _, e := range ents {
		if strings.HasSuffix(e.Name(), ".go") && !strings.HasSuffix(e.Name(), "_test.go") {
			b, err := os.ReadFile(filepath.Join(dir, e.Name()))
			if err != nil {
				continue
			}
			for _, l := range strings.Split(string(b), "\n") {
				l = strings.TrimSpace(l)
				if strings.HasPrefix(l, "package ") {
					return strings.Fields(l)[1], nil
				}
			}
		}
	}
	return "", fmt.Errorf("no package clause found in %s", dir)
}

// buildOverlay maps harness files (and the runtime) into the repo package directory.
func buildOverlay(pkgRel string, files []string) (map[string][]byte, error) {
	pkgDir := filepath.Join(repoDir, pkgRel)
	name, err := packageName(pkgDir)
	if err != nil {
		return nil, err
	}
	ov := map[string][]byte{}
	rt, err := os.ReadFile(filepath.Join(verifRoot, "harness", "rt", "zz_verif_rt.go"))
	if err != nil {
		return nil, err
	}
	ov[filepath.Join(pkgDir, "zz_verif_rt.go")] = []byte(strings.Replace(string(rt), "package PKGNAME", "package "+name, 1))
	for _, f := range files {
		b, err := os.ReadFile(f)
		if err != nil {
			return nil, err
		}
		ov[filepath.Join(pkgDir, filepath.Base(f))] = b
	}
	return ov, nil
}

type checkOpts struct {
	tier     string
	only     string
	verbose  bool
	workers  int
	seed     int
	noReplay bool
	maxPaths int
	validate int
}

func cmdCheck(args []string) int {
	fs := flag.NewFlagSet("check", flag.ExitOnError)
	var o checkOpts
	fs.StringVar(&o.tier, "tier", envOr("VERIF_TIER", "quick"), "quick|thorough")
	fs.StringVar(&o.only, "harness", "", "run only harnesses whose name contains this")
	fs.BoolVar(&o.verbose, "v", false, "verbose")
	fs.IntVar(&o.workers, "workers", 0, "parallel workers (default: cores)")
	fs.BoolVar(&o.noReplay, "no-replay", false, "skip native replay of counterexamples")
	fs.IntVar(&o.maxPaths, "max-paths", 0, "path limit per harness")
	fs.IntVar(&o.validate, "validate", -1, "passing paths per harness to validate natively (default: 1 quick, 3 thorough)")
	var prop string
	if len(args) > 0 && !strings.HasPrefix(args[0], "-") {
		prop = args[0]
		args = args[1:]
	}
	fs.Parse(args)
	if prop == "" && fs.NArg() > 0 {
		prop = fs.Arg(0)
	}
	if prop == "" {
		fmt.Fprintln(os.Stderr, "property id required")
		return 2
	}
	if o.tier != "thorough" {
		o.tier = "quick"
	}
	if o.workers <= 0 {
		o.workers = runtime.NumCPU()
		if o.workers > 16 {
			o.workers = 16
		}
	}
	o.seed, _ = strconv.Atoi(os.Getenv("VERIF_SEED"))
	if o.validate < 0 {
		o.validate = 1
		if o.tier == "thorough" {
			o.validate = 3
		}
	}
	os.Setenv("VERIF_TIER", o.tier)
	return runCheck(prop, &o)
}

func runCheck(prop string, o *checkOpts) int {
	t0 := time.Now()
	files := harnessFilesFor(prop)
	if len(files) == 0 {
		fmt.Fprintf(os.Stderr, "no harness files for %s\n", prop)
		return 2
	}
	// native validation of harness-side models (verifST_*) belonging to this property, if any
	if rc := cmdSelftest([]string{prop}); rc != 0 {
		fmt.Printf("MODEL-MISMATCH property=%s: a harness model disagrees with the library it stands for; results below are not to be trusted until it is repaired\n", prop)
	}
	known := loadKnownFindings()
	var results []*exec.HarnessResult
	var dirs []string
	for d := range files {
		dirs = append(dirs, d)
	}
	sort.Strings(dirs)
	loadFailed := false
	pkgOf := map[string]string{}
	for _, dir := range dirs {
		ov, err := buildOverlay(dir, files[dir])
		if err != nil {
			fmt.Fprintf(os.Stderr, "overlay for %s: %v\n", dir, err)
			loadFailed = true
			continue
		}
		tl := time.Now()
		prog, err := exec.Load(repoDir, dir, ov)
		for tries := 0; err != nil && tries < 8; tries++ {
			// harness files of this property that do not compile against the current tree are dropped (not the shared ones)
			dropped := false
			for _, f := range files[dir] {
				base := filepath.Base(f)
				if strings.HasPrefix(base, "zz_verif_common") {
					continue
				}
				if _, done := staleHarness[f]; done {
					continue
				}
				if i := strings.Index(err.Error(), "/"+base+":"); i >= 0 {
					line := err.Error()[i+1:]
					if j := strings.Index(line, "\n"); j >= 0 {
						line = line[:j]
					}
					staleHarness[f] = line
					fmt.Printf("STALE-HARNESS property=%s file=%s: does not compile against the current tree (%s); its harnesses are not run\n", prop, base, line)
					dropped = true
				}
			}
			if !dropped {
				break
			}
			var keep []string
			for _, f := range files[dir] {
				if _, stale := staleHarness[f]; !stale {
					keep = append(keep, f)
				}
			}
			files[dir] = keep
			ov, err = buildOverlay(dir, keep)
			if err == nil {
				prog, err = exec.Load(repoDir, dir, ov)
			}
		}
		if err != nil {
			fmt.Fprintf(os.Stderr, "LOAD-FAILED %s: %v\n", dir, err)
			loadFailed = true
			continue
		}
		fmt.Fprintf(os.Stderr, "loaded %s in %.1fs\n", prog.PkgPath, time.Since(tl).Seconds())
		hs := prog.FindHarnesses("verifH_" + prop + "_")
		sort.Slice(hs, func(i, j int) bool { return hs[i].Name() < hs[j].Name() })
		for _, h := range hs {
			if o.only != "" && !strings.Contains(h.Name(), o.only) {
				continue
			}
			doc := prog.HarnessDoc(h)
			if t, ok := doc["tier"]; ok && t == "thorough" && o.tier != "thorough" {
				continue
			}
			cfg := exec.NewHarnessCfg(h.Name(), doc, o.tier)
			ex := &exec.Explorer{P: prog, Fn: h, Cfg: cfg, Workers: o.workers, Verbose: o.verbose, SolverKind: "z3", QueryTimeoutMs: 20000, MaxPaths: o.maxPaths}
			if v, ok := doc["maxpaths."+o.tier]; ok {
				ex.MaxPaths, _ = strconv.Atoi(v)
			}
			ex.CrossBudget = 8
			if o.tier == "thorough" {
				ex.CrossBudget = 40
			}
			if v, ok := doc["qtimeout."+o.tier]; ok {
				ex.QueryTimeoutMs, _ = strconv.Atoi(v)
			}
			if v, ok := doc["workers"]; ok {
				ex.Workers, _ = strconv.Atoi(v)
			}
			budget := 10 * time.Minute
			if o.tier == "thorough" {
				budget = 40 * time.Minute
			}
			ex.Deadline = time.Now().Add(budget)
			res := ex.Run()
			pkgOf[res.Name] = dir
			results = append(results, res)
			printHarnessSummary(res)
		}
	}
	if len(results) == 0 {
		fmt.Fprintf(os.Stderr, "no harness ran for %s\n", prop)
		if loadFailed {
			// the tree does not load: nothing can be claimed, but this is not a property violation
			writeEvidence(prop, o, nil, nil, nil, time.Since(t0), true, 0, 0)
		}
		return 2
	}
	// replay + classify violations
	var confirmed []*confirmedViolation
	var knownHits []string
	mismatches := 0
	for _, r := range results {
		for _, v := range r.Violations {
			cv := &confirmedViolation{V: v, PkgRel: pkgOf[r.Name]}
			path := writeReplayFile(prop, v, pkgOf[r.Name], len(confirmed)+mismatches)
			cv.ReplayPath = path
			if !o.noReplay {
				ok, out := nativeReplay(path)
				cv.Reproduced = ok
				cv.Output = out
				if !ok {
					mismatches++
					fmt.Printf("ENCODER-MISMATCH property=%s harness=%s site=%s (model did not reproduce natively; see %s)\n", prop, v.Harness, v.Site, path)
					if o.verbose {
						fmt.Println(out)
					}
					continue
				}
			} else {
				cv.Reproduced = true
			}
			if k, ok := known[prop+" "+v.Site]; ok {
				knownHits = append(knownHits, fmt.Sprintf("KNOWN-FINDING: property=%s %s", prop, k))
				cv.Known = true
			}
			confirmed = append(confirmed, cv)
		}
	}
	// native validation of passing paths: the compiled harness must pass on witness inputs (and schedules) of completed
	// symbolic paths; a failure or divergence means the executor, a stub or the replay machinery disagrees with the compiler
	validated, validationFailed, unvalidated := 0, 0, 0
	if !o.noReplay && o.validate > 0 {
		for _, r := range results {
			for i, pw := range r.PassWitnesses {
				if i >= o.validate {
					break
				}
				path := writeReplayFile(prop, pw, pkgOf[r.Name], 1000+i)
				ok, out := nativePass(path)
				if ok && strings.HasPrefix(out, "UNVALIDATED") {
					unvalidated++
				} else if ok {
					validated++
				} else {
					validationFailed++
					fmt.Printf("VALIDATION-MISMATCH property=%s harness=%s: a path the executor completed without violation does not pass natively (see %s)\n", prop, r.Name, path)
					if o.verbose {
						fmt.Println(out)
					}
				}
			}
		}
		fmt.Printf("validated %d passing paths natively (%d mismatches, %d not comparable: schedule not imposable)\n", validated, validationFailed, unvalidated)
	}
	sort.Strings(knownHits)
	seen := map[string]bool{}
	for _, k := range knownHits {
		if !seen[k] {
			fmt.Println(k)
			seen[k] = true
		}
	}
	exit := 0
	for _, cv := range confirmed {
		if !cv.Known {
			fmt.Printf("VIOLATION property=%s replay=%s\n", prop, cv.ReplayPath)
			fmt.Printf("  harness=%s kind=%s site=%s\n  %s\n  inputs: %s\n", cv.V.Harness, cv.V.Kind, cv.V.Site, cv.V.Msg, renderInputs(cv.V.Inputs))
			exit = 1
		}
	}
	writeEvidence(prop, o, results, confirmed, knownHits, time.Since(t0), false, validated, validationFailed)
	if exit == 0 {
		incon := len(staleHarness) + mismatches
		for _, r := range results {
			incon += r.Inconclusive + len(r.Undischarged)
			if r.Truncated {
				incon++
			}
		}
		if incon > 0 {
			fmt.Printf("RESULT property=%s: no violation; %d inconclusive items (see evidence)\n", prop, incon)
		} else if len(seen) > 0 {
			fmt.Printf("RESULT property=%s: no unlisted violation; %d known finding(s) reproduced (%d harnesses)\n", prop, len(seen), len(results))
		} else {
			fmt.Printf("RESULT property=%s: HOLDS within bounds (%d harnesses)\n", prop, len(results))
		}
	}
	return exit
}

type confirmedViolation struct {
	V          *exec.Violation
	PkgRel     string
	ReplayPath string
	Reproduced bool
	Known      bool
	Output     string
}

func printHarnessSummary(r *exec.HarnessResult) {
	status := "HOLDS"
	if len(r.Violations) > 0 {
		status = "COUNTEREXAMPLE"
	} else if r.Inconclusive > 0 || len(r.Undischarged) > 0 || r.Truncated {
		status = "INCONCLUSIVE"
	}
	fmt.Printf("%-14s %s paths=%d ok=%d infeasible=%d inconclusive=%d asserts=%d/%d panicchecks=%d queries=%d (unknown %d, modelhits %d) solver=%.1fs wall=%.1fs\n",
		status, r.Name, r.Paths, r.PathsOK, r.Infeasible, r.Inconclusive, r.Discharged, r.Asserts, r.PanicChecks, r.Solver.Queries, r.Solver.Unknown, r.ModelHits, r.Solver.SolveTime.Seconds(), r.Wall.Seconds())
	for msg, n := range r.InconclusiveReasons {
		fmt.Printf("    inconclusive x%d: %s\n", n, firstLine(msg, 300))
	}
	for _, u := range r.Undischarged {
		fmt.Printf("    undischarged: %s\n", firstLine(u, 300))
	}
	if r.CrossChecked > 0 {
		fmt.Printf("    cross-solver: %d unsat answers re-asked to cvc5 and z3 5.1: %d confirmed, %d undecided by both, %d contradicted\n", r.CrossChecked, r.CrossAgreed, r.CrossUnknown, len(r.CrossDisagree))
	}
	for _, d := range r.CrossDisagree {
		fmt.Printf("SOLVER-DISAGREEMENT %s\n", d)
	}
	if r.Truncated {
		fmt.Printf("    truncated: path/time budget reached before the frontier was empty\n")
	}
	for site, n := range r.ViolationCount {
		fmt.Printf("    counterexample site %s on %d paths\n", site, n)
	}
}

func firstLine(s string, n int) string {
	if len(s) > n {
		s = s[:n] + "..."
	}
	return s
}

func renderInputs(vals []exec.ReplayVal) string {
	var parts []string
	for _, v := range vals {
		if v.Kind == "bytes" {
			var sb strings.Builder
			sb.WriteString("bytes\"")
			for _, b := range v.Vals {
				if b >= 32 && b < 127 && b != '"' && b != '\\' {
					sb.WriteByte(byte(b))
				} else {
					fmt.Fprintf(&sb, "\\x%02x", b)
				}
			}
			sb.WriteString("\"")
			parts = append(parts, sb.String())
		} else {
			parts = append(parts, fmt.Sprintf("%s=%d", v.Kind, v.Val))
		}
	}
	return strings.Join(parts, " ")
}

var findingRe = regexp.MustCompile(`^finding:\s+property=(\S+)\s+site="([^"]+)"\s*(.*)$`)

// loadKnownFindings reads /verif/known_findings.txt: lines `finding: property=<id> site="<harness|site signature>" <text>`.
// Matching is by exact site signature, so a different violation of the same property is still reported.
func loadKnownFindings() map[string]string {
	out := map[string]string{}
	b, err := os.ReadFile(filepath.Join(verifRoot, "known_findings.txt"))
	if err != nil {
		return out
	}
	for _, l := range strings.Split(string(b), "\n") {
		m := findingRe.FindStringSubmatch(strings.TrimSpace(l))
		if m == nil {
			continue
		}
		out[m[1]+" "+m[2]] = m[3]
	}
	return out
}

func writeJSON(path string, v interface{}) error {
	os.MkdirAll(filepath.Dir(path), 0o755)
	b, err := json.MarshalIndent(v, "", " ")
	if err != nil {
		return err
	}
	return os.WriteFile(path, append(b, '\n'), 0o644)
}
