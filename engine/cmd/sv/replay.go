package main

import (
	"context"
	"encoding/json"
	"fmt"
	"os"
	osexec "os/exec"
	"path/filepath"
	"strings"
	"time"

	"verif/engine/exec"
)

type replayFile struct {
	Property string           `json:"property"`
	Harness  string           `json:"harness"`
	PkgRel   string           `json:"pkg"`
	Kind     string           `json:"kind"`
	Msg      string           `json:"msg"`
	Site     string           `json:"site"`
	Inputs   []exec.ReplayVal `json:"inputs"`
	Sched    []int            `json:"sched"`
	SchedPos []string         `json:"sched_pos,omitempty"`
	Trace    []string         `json:"trace,omitempty"`
	Path     string           `json:"path_decisions,omitempty"`
}

func writeReplayFile(prop string, v *exec.Violation, pkgRel string, n int) string {
	rf := replayFile{Property: prop, Harness: v.Harness, PkgRel: pkgRel, Kind: v.Kind, Msg: v.Msg, Site: v.Site, Inputs: v.Inputs, Sched: v.Sched, SchedPos: v.SchedPos, Trace: v.Trace, Path: v.PathID}
	if rf.Inputs == nil {
		rf.Inputs = []exec.ReplayVal{}
	}
	path := filepath.Join(verifRoot, "evidence", "replay", fmt.Sprintf("%s-%s-%d.json", prop, strings.TrimPrefix(v.Harness, "verifH_"), n))
	writeJSON(path, rf)
	return path
}

func cmdReplay(args []string) int {
	if len(args) < 1 {
		fmt.Fprintln(os.Stderr, "usage: sv replay <file>")
		return 2
	}
	ok, out := nativeReplay(args[0])
	fmt.Println(out)
	if ok {
		fmt.Println("REPRODUCED")
		return 1
	}
	fmt.Println("NOT-REPRODUCED")
	return 0
}

// nativeReplay compiles the harness into the real package (go test -overlay) and runs it on the recorded inputs.
func nativeReplay(path string) (bool, string) {
	b, err := os.ReadFile(path)
	if err != nil {
		return false, err.Error()
	}
	var rf replayFile
	if err := json.Unmarshal(b, &rf); err != nil {
		return false, err.Error()
	}
	files := harnessFilesFor(rf.Property)
	fl, ok := files[rf.PkgRel]
	if !ok {
		return false, "no harness files for " + rf.Property + " in " + rf.PkgRel
	}
	ov, err := buildOverlay(rf.PkgRel, fl)
	if err != nil {
		return false, err.Error()
	}
	sched := len(rf.Sched) > 0 && rf.Kind != "race"
	// harnesses that ask verifHeldLocks() get lock-counting copies, so that the answer means something natively
	locks := false
	if rf.Kind != "race" {
		for _, f := range fl {
			if b, err := os.ReadFile(f); err == nil && strings.Contains(string(b), "func "+rf.Harness+"(") && strings.Contains(string(b), "verifHeldLocks()") {
				locks = true
			}
		}
	}
	if sched || locks {
		// thread harness: instrumented copies of the package's files follow the recorded schedule natively
		prog, err := exec.Load(repoDir, rf.PkgRel, ov)
		if err != nil {
			return false, "load for instrumentation failed: " + err.Error()
		}
		inst, err := instrumentForSchedule(prog, sched, locks)
		if err != nil {
			return false, "instrumentation failed: " + err.Error()
		}
		for name, content := range inst {
			ov[name] = content
		}
	}
	work, err := os.MkdirTemp(filepath.Join(verifRoot, ".work"), "replay-")
	if err != nil {
		os.MkdirAll(filepath.Join(verifRoot, ".work"), 0o755)
		work, err = os.MkdirTemp(filepath.Join(verifRoot, ".work"), "replay-")
		if err != nil {
			return false, err.Error()
		}
	}
	if os.Getenv("VERIF_KEEP_WORK") == "" {
		defer os.RemoveAll(work)
	} else {
		fmt.Fprintln(os.Stderr, "keeping work dir", work)
	}
	pkgDir := filepath.Join(repoDir, rf.PkgRel)
	name, _ := packageName(pkgDir)
	testSrc := fmt.Sprintf("package %s\n\nimport \"testing\"\n\nfunc TestVerifReplay(t *testing.T) {\n\tverifMainHere()\n\t%s()\n}\n", name, rf.Harness)
	ov[filepath.Join(pkgDir, "zz_verif_replay_test.go")] = []byte(testSrc)
	repl := map[string]string{}
	i := 0
	for virt, content := range ov {
		real := filepath.Join(work, fmt.Sprintf("f%d_%s", i, filepath.Base(virt)))
		i++
		if err := os.WriteFile(real, content, 0o644); err != nil {
			return false, err.Error()
		}
		repl[virt] = real
	}
	ovPath := filepath.Join(work, "overlay.json")
	writeJSON(ovPath, map[string]interface{}{"Replace": repl})
	ctx, cancel := context.WithTimeout(context.Background(), 180*time.Second)
	defer cancel()
	pat := "./" + rf.PkgRel
	if rf.PkgRel == "" {
		pat = "."
	}
	goArgs := []string{"test", "-v", "-vet=off", "-count=1", "-timeout", "20s", "-run", "^TestVerifReplay$", "-overlay", ovPath, pat}
	if rf.Kind == "race" {
		// data races are confirmed by Go's own race detector on a free run (the replay scheduler's lock would order
		// every gated operation and hide the race): happens-before races do not depend on the schedule taken
		goArgs = append([]string{"test", "-race"}, goArgs[1:]...)
		rf.Sched = nil
	}
	cmd := osexec.CommandContext(ctx, "go", goArgs...)
	cmd.Dir = repoDir
	abs, _ := filepath.Abs(path)
	cmd.Env = append(os.Environ(), "GOFLAGS=-mod=mod", "GOPROXY=off", "GOSUMDB=off", "GOTOOLCHAIN=local", "VERIF_REPLAY="+abs)
	if rf.Kind == "race" {
		cmd.Env = append(cmd.Env, "VERIF_RACE=1")
	}
	if harnessDirective(rf.Property, rf.PkgRel, rf.Harness, "//verif:replay free") {
		cmd.Env = append(cmd.Env, "VERIF_FREE=1")
	}
	outB, runErr := cmd.CombinedOutput()
	out := string(outB)
	failed := runErr != nil
	short := out
	if len(short) > 3000 {
		short = short[:3000]
	}
	if strings.Contains(out, "VERIF-REPLAY-") || strings.Contains(out, "VERIF-ASSUME-FAILED") {
		return false, short
	}
	if strings.Contains(out, "[build failed]") || strings.Contains(out, "[setup failed]") {
		return false, short
	}
	switch rf.Kind {
	case "assert":
		want := "VERIF-ASSERT-FAIL: " + assertMsg(rf.Site)
		if anyAssert(rf.Property, rf.PkgRel, rf.Harness) {
			// time-gated harnesses: natively the schedule of background passes is only approximated, so another
			// clause of the same oracle may fire first; any assertion failure of this harness on these inputs counts
			want = "VERIF-ASSERT-FAIL: "
		}
		return failed && strings.Contains(out, want), short
	case "panic":
		if !failed || strings.Contains(out, "VERIF-ASSERT-FAIL") {
			return false, short
		}
		return strings.Contains(out, "panic:") || strings.Contains(out, "fatal error:"), short
	case "race":
		// the report must name both source positions of the race the executor found (races of the harness's own
		// bookkeeping, which runs unsynchronised in this mode, do not count)
		if !strings.Contains(out, "WARNING: DATA RACE") {
			return false, short
		}
		i := strings.Index(rf.Site, "|race:")
		if i < 0 {
			return false, short
		}
		for _, pos := range strings.Split(rf.Site[i+len("|race:"):], "|") {
			if strings.Contains(pos, ".go:") {
				if !strings.Contains(out, "/"+pos) {
					return false, short
				}
				continue
			}
			// an access without a source position (compiler-generated loads of a range loop, for instance) is named by
			// its function, "(*import/path.T).m": the race report prints it as "path.(*T).m()"
			fn := pos
			if k := strings.LastIndex(fn, "/"); k >= 0 {
				fn = fn[k+1:]
			}
			if k := strings.Index(fn, "."); k >= 0 {
				fn = fn[k+1:]
			}
			if !strings.Contains(out, fn+"(") {
				return false, short
			}
		}
		return true, short
	case "pass":
		return !failed, short
	case "deadlock":
		return failed && (strings.Contains(out, "test timed out") || strings.Contains(out, "all goroutines are asleep")), short
	}
	return false, short
}

func assertMsg(site string) string {
	if i := strings.Index(site, "|assert:"); i >= 0 {
		return site[i+len("|assert:"):]
	}
	return site
}

// anyAssert reports whether the harness carries the directive //verif:replay anyassert.
func anyAssert(prop, pkgRel, harness string) bool {
	return harnessDirective(prop, pkgRel, harness, "//verif:replay anyassert")
}

// harnessDirective reports whether the doc comment of the harness contains the given directive line.
func harnessDirective(prop, pkgRel, harness, directive string) bool {
	for _, f := range harnessFilesFor(prop)[pkgRel] {
		b, err := os.ReadFile(f)
		if err != nil {
			continue
		}
		src := string(b)
		i := strings.Index(src, "func "+harness+"(")
		if i < 0 {
			continue
		}
		j := strings.LastIndex(src[:i], "\n\n")
		if j < 0 {
			j = 0
		}
		return strings.Contains(src[j:i], directive)
	}
	return false
}

// cmdSelftest runs the native validation functions (verifST_*) that belong to a property's harness files: they compare
// harness-side models against the real libraries they stand for. Exit 0 = all agree.
func cmdSelftest(args []string) int {
	if len(args) < 1 {
		fmt.Fprintln(os.Stderr, "usage: sv selftest <prop>")
		return 2
	}
	prop := args[0]
	rc := 0
	for pkgRel, files := range harnessFilesFor(prop) {
		var fns []string
		for _, f := range files {
			b, _ := os.ReadFile(f)
			for _, l := range strings.Split(string(b), "\n") {
				if strings.HasPrefix(l, "func verifST_") {
					name := strings.TrimPrefix(l, "func ")
					fns = append(fns, name[:strings.Index(name, "(")])
				}
			}
		}
		if len(fns) == 0 {
			continue
		}
		ov, err := buildOverlay(pkgRel, files)
		if err != nil {
			fmt.Println(err)
			return 2
		}
		os.MkdirAll(filepath.Join(verifRoot, ".work"), 0o755)
		work, err := os.MkdirTemp(filepath.Join(verifRoot, ".work"), "selftest-")
		if err != nil {
			fmt.Println(err)
			return 2
		}
		pkgDir := filepath.Join(repoDir, pkgRel)
		name, _ := packageName(pkgDir)
		var body strings.Builder
		for _, fn := range fns {
			body.WriteString("\t" + fn + "()\n")
		}
		ov[filepath.Join(pkgDir, "zz_verif_selftest_test.go")] = []byte(fmt.Sprintf("package %s\n\nimport \"testing\"\n\nfunc TestVerifSelftest(t *testing.T) {\n%s}\n", name, body.String()))
		repl := map[string]string{}
		i := 0
		for virt, content := range ov {
			real := filepath.Join(work, fmt.Sprintf("f%d_%s", i, filepath.Base(virt)))
			i++
			os.WriteFile(real, content, 0o644)
			repl[virt] = real
		}
		ovPath := filepath.Join(work, "overlay.json")
		writeJSON(ovPath, map[string]interface{}{"Replace": repl})
		pat := "./" + pkgRel
		if pkgRel == "" {
			pat = "."
		}
		cmd := osexec.Command("go", "test", "-vet=off", "-count=1", "-timeout", "300s", "-run", "^TestVerifSelftest$", "-overlay", ovPath, pat)
		cmd.Dir = repoDir
		cmd.Env = append(os.Environ(), "GOFLAGS=-mod=mod", "GOPROXY=off", "GOSUMDB=off", "GOTOOLCHAIN=local", "VERIF_REPLAY=/dev/null")
		out, err := cmd.CombinedOutput()
		os.RemoveAll(work)
		if err != nil {
			fmt.Printf("SELFTEST-FAILED %s %v\n%s\n", pkgRel, fns, firstN(string(out), 2000))
			rc = 1
		} else {
			fmt.Printf("selftest ok: %s %v\n", pkgRel, fns)
		}
	}
	return rc
}

func firstN(s string, n int) string {
	if len(s) > n {
		return s[:n]
	}
	return s
}

// nativePass runs a passing-path witness natively: the harness must complete without assertion failure, panic,
// divergence of the input stream or a stuck schedule.
func nativePass(path string) (bool, string) {
	_, out := nativeReplay(path)
	if strings.Contains(out, "VERIF-SCHED-DIVERGED") || strings.Contains(out, "VERIF-SCHED-INCOMPLETE") {
		// goroutines running in other packages are not gated natively, so the recorded schedule could not be imposed:
		// nothing was compared (reported as unvalidated, not as a disagreement)
		return true, "UNVALIDATED " + out
	}
	bad := []string{"VERIF-ASSERT-FAIL", "VERIF-REPLAY-DIVERGED", "VERIF-REPLAY-ERROR", "VERIF-ASSUME-FAILED", "panic:", "fatal error:", "[build failed]", "[setup failed]", "test timed out"}
	for _, b := range bad {
		if strings.Contains(out, b) {
			return false, out
		}
	}
	if strings.Contains(out, "VERIF-REPLAY-TOO-LARGE") {
		return true, out // sizes not materialisable natively: nothing to compare
	}
	return strings.Contains(out, "ok  \t") || strings.Contains(out, "PASS"), out
}
