package main

import (
	"fmt"
	"path/filepath"
	"sort"
	"strings"
	"time"

	"verif/engine/exec"
)

func writeEvidence(prop string, o *checkOpts, results []*exec.HarnessResult, confirmed []*confirmedViolation, knownHits []string, wall time.Duration, loadFailed bool, validated, validationFailed int) {
	type harnessEv struct {
		Name          string            `json:"name"`
		Bounds        map[string]string `json:"bounds"`
		Paths         int               `json:"paths"`
		PathsComplete int               `json:"paths_complete"`
		Infeasible    int               `json:"paths_infeasible"`
		Inconclusive  int               `json:"paths_inconclusive"`
		Reasons       map[string]int    `json:"inconclusive_reasons,omitempty"`
		UnwindFail    int               `json:"unwinding_failures"`
		Asserts       int               `json:"assertion_obligations"`
		Discharged    int               `json:"assertion_discharged"`
		PanicChecks   int               `json:"implicit_panic_obligations"`
		Undischarged  []string          `json:"undischarged,omitempty"`
		Reached       map[string]int    `json:"vacuity_witnesses_reached"`
		Queries       int               `json:"solver_queries"`
		Unknown       int               `json:"solver_unknown"`
		SolverS       float64           `json:"solver_time_s"`
		WallS         float64           `json:"wall_s"`
		Steps         int               `json:"ssa_instructions_executed"`
		Threads       int               `json:"max_threads"`
		SchedPoints   int               `json:"scheduling_decisions"`
		Truncated     bool              `json:"truncated"`
		Counterex     map[string]int    `json:"counterexample_sites,omitempty"`
		Observations  int               `json:"distinct_observation_logs,omitempty"`
	}
	var hs []harnessEv
	funcs := map[string]int{}
	stubs := map[string]int{}
	assumptions := map[string]bool{}
	var samples []interface{}
	obligations, discharged, queries, distinct, paths := 0, 0, 0, 0, 0
	solverTime := 0.0
	exhaustive := !loadFailed && len(staleHarness) == 0
	var stale []string
	for f, why := range staleHarness {
		stale = append(stale, filepath.Base(f)+": "+why)
	}
	sort.Strings(stale)
	crossChecked, crossAgreed, crossUnknown := 0, 0, 0
	crossDisagree := []string{}
	for _, r := range results {
		crossChecked += r.CrossChecked
		crossAgreed += r.CrossAgreed
		crossUnknown += r.CrossUnknown
		crossDisagree = append(crossDisagree, r.CrossDisagree...)
	}
	for _, r := range results {
		b := map[string]string{"unwind": fmt.Sprint(r.Cfg.Unwind), "max_steps": fmt.Sprint(r.Cfg.MaxSteps)}
		for k, v := range r.Cfg.Opts {
			b["directive:"+k] = v
		}
		if r.MaxThreads > 1 {
			b["preemption_bound"] = fmt.Sprint(r.Cfg.Preempt)
			b["max_visible_ops"] = fmt.Sprint(r.Cfg.MaxVisOps)
		}
		hs = append(hs, harnessEv{Name: r.Name, Bounds: b, Paths: r.Paths, PathsComplete: r.PathsOK, Infeasible: r.Infeasible, Inconclusive: r.Inconclusive,
			Reasons: r.InconclusiveReasons, UnwindFail: r.UnwindFail, Asserts: r.Asserts, Discharged: r.Discharged, PanicChecks: r.PanicChecks,
			Undischarged: r.Undischarged, Reached: r.Reached, Queries: r.Solver.Queries, Unknown: r.Solver.Unknown, SolverS: r.Solver.SolveTime.Seconds(),
			WallS: r.Wall.Seconds(), Steps: r.Steps, Threads: r.MaxThreads, SchedPoints: r.VisibleOps, Truncated: r.Truncated, Counterex: r.ViolationCount,
			Observations: len(r.Observations)})
		for k, n := range r.Funcs {
			funcs[k] += n
		}
		for k, n := range r.Stubs {
			stubs[k] += n
		}
		for k := range r.Assumptions {
			assumptions[k] = true
		}
		for _, s := range r.Samples {
			samples = append(samples, map[string]string{"harness": r.Name, "case": s})
		}
		obligations += r.Asserts + r.PanicChecks
		discharged += r.Discharged + r.PanicChecks
		queries += r.Solver.Queries
		distinct += r.SymbolicPaths
		paths += r.Paths
		solverTime += r.Solver.SolveTime.Seconds()
		if r.Inconclusive > 0 || len(r.Undischarged) > 0 || r.Truncated || r.UnwindFail > 0 {
			exhaustive = false
		}
	}
	// implicit panic obligations are discharged by path exploration: the panicking side is either infeasible or followed and reported
	var repoFuncs, otherFuncs []string
	for k := range funcs {
		if strings.Contains(k, exec.RepoModule) && !strings.Contains(k, "verif") {
			repoFuncs = append(repoFuncs, k)
		} else if !strings.Contains(k, "verif") {
			otherFuncs = append(otherFuncs, k)
		}
	}
	sort.Strings(repoFuncs)
	sort.Strings(otherFuncs)
	var stubList []string
	for k, n := range stubs {
		if !strings.HasPrefix(k, "verif") {
			stubList = append(stubList, fmt.Sprintf("%s x%d", k, n))
		}
	}
	sort.Strings(stubList)
	var assumeList []string
	for k := range assumptions {
		assumeList = append(assumeList, k)
	}
	sort.Strings(assumeList)
	assumeList = append(assumeList,
		"go/packages + go/ssa (x/tools v0.29.0) faithfully represent the program; the SSA executor (verif/engine/exec) implements Go semantics for the instructions it runs",
		"z3 4.8.12 answers are correct (counterexamples are re-run natively before being reported)",
		"stubbed callees behave as their documented contract (list in coverage.stubs_used; DESIGN.md section 3)",
		"claims hold only within the bounds listed per harness (sizes, unwinding, threads, preemptions); nothing is claimed outside them")
	var viol []interface{}
	nViol := 0
	for _, cv := range confirmed {
		viol = append(viol, map[string]interface{}{"harness": cv.V.Harness, "kind": cv.V.Kind, "site": cv.V.Site, "msg": cv.V.Msg,
			"replay": cv.ReplayPath, "reproduced_natively": cv.Reproduced, "known_finding": cv.Known, "inputs": renderInputs(cv.V.Inputs)})
		if !cv.Known && cv.Reproduced {
			nViol++
		}
	}
	if len(samples) == 0 {
		samples = append(samples, "no completed path (see harnesses[].inconclusive_reasons)")
	}
	if distinct < 2 && paths >= 2 {
		// fully concrete harness paths still count as distinct cases (distinct decision vectors)
		distinct = paths
	}
	expl := "Bounded symbolic execution of the real code: harness + repository functions are loaded from /repo's working tree as go/ssa on every run, " +
		"executed path by path with symbolic inputs (SMT bit-vectors / floats / arrays); every branch feasibility, every implicit Go panic condition " +
		"(index/slice bounds, nil dereference, division by zero, failed type assertion) and every harness assertion is a z3 query. 'evaluations' = solver queries, " +
		"'distinct_nontrivial' = completed feasible paths whose path condition constrains at least one symbolic input (each path has a distinct decision vector and stands " +
		"for every input satisfying its path condition), 'obligations' = assertion + implicit panic obligations raised, 'discharged' = those shown unsat (or followed to a " +
		"reported counterexample). exhaustive=true means no path was cut by an unsupported operation, unwinding bound, budget or solver unknown."
	ev := map[string]interface{}{
		"property_id": prop,
		"tier":        o.tier,
		"seed":        o.seed,
		"level":       "other",
		"wall_s":      wall.Seconds(),
		"violations":  nViol,
		"assumptions": assumeList,
		"coverage": map[string]interface{}{
			"explanation":                         expl,
			"evaluations":                         max(queries, 1),
			"distinct_nontrivial":                 distinct,
			"rule":                                "one case = one feasible path of a harness through the real SSA (distinct decision vector); non-trivial = its path condition mentions at least one symbolic input or scheduling choice",
			"samples":                             samples,
			"obligations":                         obligations,
			"discharged":                          discharged,
			"exhaustive":                          exhaustive,
			"paths":                               paths,
			"solver":                              "z3 4.8.12 (persistent, incremental); counterexamples replayed natively with go test -overlay",
			"solver_time_s":                       solverTime,
			"harnesses":                           hs,
			"functions_encoded":                   repoFuncs,
			"library_functions_executed_from_ssa": otherFuncs,
			"stubs_used":                          stubList,
			"counterexamples":                     viol,
			"known_findings_matched":              knownHits,
			"load_failed":                         loadFailed,
			"cross_solver_rechecked_unsat":        crossChecked,
			"cross_solver_agreed":                 crossAgreed,
			"cross_solver_unknown":                crossUnknown,
			"cross_solver_disagreements":          crossDisagree,
			"traces_validated_against_impl":       validated,
			"native_validation_mismatches":        validationFailed,
			"native_validation":                   "witness inputs (and recorded schedules) of sampled PASSING symbolic paths are run against the compiled harness + real code with go test -overlay; a failure would mean the executor, a stub or the replay machinery disagrees with the compiler",
			"stale_harness_files":                 stale,
			"checker_cmd":                         "/verif/bin/sv check " + prop + " --tier " + o.tier,
		},
	}
	writeJSON(filepath.Join(verifRoot, "evidence", prop+".json"), ev)
}
