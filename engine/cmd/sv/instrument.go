package main

import (
	"bytes"
	"fmt"
	"go/ast"
	"go/parser"
	"go/printer"
	"go/token"
	"go/types"
	"path/filepath"
	"sort"
	"strings"

	"golang.org/x/tools/go/packages"

	"verif/engine/exec"
)

// instrumentForSchedule produces, for every non-test source file of the harness package (repo files and harness overlay
// files, except the runtime), a copy in which verifSched() precedes every statement that performs a visible
// synchronisation operation and every go statement registers the new goroutine with the native scheduler.
// The set of gated operations is exactly exec.InstrumentedCallees + channel send/receive/select/close + verifYield,
// resolved with go/types (so sync.Mutex reached through the repo's internal/sync aliases is recognised).
//
// With locks set, every mutex Lock/RLock statement of the package is followed by verifLockInc() and every Unlock/RUnlock
// (plain or deferred) preceded by verifLockDec(), so that verifHeldLocks() has a native meaning too: the number of
// mutexes of this package currently held.
func instrumentForSchedule(prog *exec.Program, sched, locks bool) (map[string][]byte, error) {
	out := map[string][]byte{}
	harnessPkg := prog.Pkgs[0]
	var deps []*packages.Package
	packages.Visit(prog.Pkgs, nil, func(p *packages.Package) {
		if p != harnessPkg && (p.PkgPath == exec.RepoModule || strings.HasPrefix(p.PkgPath, exec.RepoModule+"/")) {
			deps = append(deps, p)
		}
	})
	sort.Slice(deps, func(i, j int) bool { return deps[i].PkgPath < deps[j].PkgPath })
	if err := instrumentPkg(prog, harnessPkg, "verif", sched, locks, out); err != nil {
		return nil, err
	}
	// the other packages of the module call the harness package's scheduler through hook variables (they cannot import it)
	var hooked []*packages.Package
	for _, p := range deps {
		before := len(out)
		if err := instrumentPkg(prog, p, "VerifHook", sched, locks, out); err != nil {
			return nil, err
		}
		if len(out) == before || len(p.GoFiles) == 0 {
			continue
		}
		hooked = append(hooked, p)
		dir := filepath.Dir(p.GoFiles[0])
		out[filepath.Join(dir, "zz_verif_hook.go")] = []byte("package " + p.Name + `

// hooks of the native schedule replay: set by the harness package's init
var (
	VerifHookSched   = func() {}
	VerifHookSpawn   = func() int { return 0 }
	VerifHookEnter   = func(int) {}
	VerifHookLeave   = func(int) {}
	VerifHookLockInc = func() {}
	VerifHookLockDec = func() {}
)
`)
	}
	if len(hooked) > 0 && len(harnessPkg.GoFiles) > 0 {
		var b strings.Builder
		b.WriteString("package " + harnessPkg.Name + "\n\nimport (\n")
		for i, p := range hooked {
			fmt.Fprintf(&b, "\tverifhook%d %q\n", i, p.PkgPath)
		}
		b.WriteString(")\n\nfunc init() {\n")
		for i := range hooked {
			fmt.Fprintf(&b, "\tverifhook%d.VerifHookSched, verifhook%d.VerifHookSpawn, verifhook%d.VerifHookEnter, verifhook%d.VerifHookLeave = verifSched, verifSpawn, verifEnter, verifLeave\n", i, i, i, i)
			fmt.Fprintf(&b, "\tverifhook%d.VerifHookLockInc, verifhook%d.VerifHookLockDec = verifLockInc, verifLockDec\n", i, i)
		}
		b.WriteString("}\n")
		out[filepath.Join(filepath.Dir(harnessPkg.GoFiles[0]), "zz_verif_hooks_gen.go")] = []byte(b.String())
	}
	return out, nil
}

func instrumentPkg(prog *exec.Program, pkg *packages.Package, prefix string, sched, locks bool, out map[string][]byte) error {
	for _, file := range pkg.Syntax {
		name := prog.Fset.Position(file.Pos()).Filename
		if filepath.Base(name) == "zz_verif_rt.go" || strings.HasSuffix(name, "_test.go") {
			continue
		}
		in := &instrumenter{info: pkg.TypesInfo, sched: sched, locks: locks, prefix: prefix}
		for _, d := range file.Decls {
			if fd, ok := d.(*ast.FuncDecl); ok && fd.Body != nil {
				fd.Body.List = in.block(fd.Body.List)
			} else if gd, ok := d.(*ast.GenDecl); ok {
				// function literals in package-level variable initialisers
				ast.Inspect(gd, func(n ast.Node) bool {
					if fl, ok := n.(*ast.FuncLit); ok {
						fl.Body.List = in.block(fl.Body.List)
						return false
					}
					return true
				})
			}
		}
		if !in.changed {
			continue
		}
		var buf bytes.Buffer
		// print without the original comments: they are attached by position and the inserted statements have none
		file.Comments = nil
		if err := printer.Fprint(&buf, token.NewFileSet(), file); err != nil {
			return err
		}
		out[name] = buf.Bytes()
	}
	return nil
}

type instrumenter struct {
	info    *types.Info
	changed bool
	sched   bool
	locks   bool
	prefix  string // "verif" in the harness package, "VerifHook" elsewhere
}

// name maps a scheduler entry point (Sched, Spawn, Enter, Leave, LockInc, LockDec) to its name in this package.
func (in *instrumenter) name(what string) string { return in.prefix + what }

func callStmt(name string) ast.Stmt {
	return &ast.ExprStmt{X: &ast.CallExpr{Fun: ast.NewIdent(name)}}
}

// lockCall classifies a call expression: +1 for Lock/RLock on a sync mutex, -1 for Unlock/RUnlock, 0 otherwise.
func (in *instrumenter) lockCall(e ast.Expr) int {
	c, ok := e.(*ast.CallExpr)
	if !ok {
		return 0
	}
	sel, ok := c.Fun.(*ast.SelectorExpr)
	if !ok {
		return 0
	}
	fn, ok := in.info.Uses[sel.Sel].(*types.Func)
	if !ok {
		return 0
	}
	switch fn.FullName() {
	case "(*sync.Mutex).Lock", "(*sync.RWMutex).Lock", "(*sync.RWMutex).RLock":
		return 1
	case "(*sync.Mutex).Unlock", "(*sync.RWMutex).Unlock", "(*sync.RWMutex).RUnlock":
		return -1
	}
	return 0
}

func schedStmt() ast.Stmt {
	return &ast.ExprStmt{X: &ast.CallExpr{Fun: ast.NewIdent("verifSched")}}
}

func (in *instrumenter) block(list []ast.Stmt) []ast.Stmt {
	var out []ast.Stmt
	for _, s := range list {
		s = in.rewrite(s)
		if in.sched && in.hasVisible(s) {
			out = append(out, callStmt(in.name("Sched")))
			in.changed = true
		}
		if in.locks {
			switch v := s.(type) {
			case *ast.ExprStmt:
				switch in.lockCall(v.X) {
				case 1:
					out = append(out, s, callStmt(in.name("LockInc")))
					in.changed = true
					continue
				case -1:
					out = append(out, callStmt(in.name("LockDec")), s)
					in.changed = true
					continue
				}
			case *ast.DeferStmt:
				if in.lockCall(v.Call) == -1 {
					in.changed = true
					out = append(out, &ast.DeferStmt{Call: &ast.CallExpr{Fun: &ast.FuncLit{
						Type: &ast.FuncType{Params: &ast.FieldList{}},
						Body: &ast.BlockStmt{List: []ast.Stmt{callStmt(in.name("LockDec")), &ast.ExprStmt{X: v.Call}}},
					}}})
					continue
				}
			}
		}
		out = append(out, s)
	}
	return out
}

// funcLits instruments the bodies of function literals occurring in the expressions of a statement.
func (in *instrumenter) funcLits(n ast.Node) {
	if n == nil {
		return
	}
	ast.Inspect(n, func(x ast.Node) bool {
		switch v := x.(type) {
		case *ast.FuncLit:
			v.Body.List = in.block(v.Body.List)
			return false
		case *ast.BlockStmt:
			return false
		}
		return true
	})
}

func (in *instrumenter) rewrite(s ast.Stmt) ast.Stmt {
	switch v := s.(type) {
	case *ast.BlockStmt:
		v.List = in.block(v.List)
	case *ast.IfStmt:
		in.funcLits(v.Init)
		in.funcLits(v.Cond)
		v.Body.List = in.block(v.Body.List)
		if v.Else != nil {
			v.Else = in.rewrite(v.Else)
		}
	case *ast.ForStmt:
		in.funcLits(v.Init)
		in.funcLits(v.Cond)
		in.funcLits(v.Post)
		v.Body.List = in.block(v.Body.List)
	case *ast.RangeStmt:
		in.funcLits(v.X)
		v.Body.List = in.block(v.Body.List)
	case *ast.SwitchStmt:
		in.funcLits(v.Init)
		in.funcLits(v.Tag)
		for _, c := range v.Body.List {
			cc := c.(*ast.CaseClause)
			cc.Body = in.block(cc.Body)
		}
	case *ast.TypeSwitchStmt:
		for _, c := range v.Body.List {
			cc := c.(*ast.CaseClause)
			cc.Body = in.block(cc.Body)
		}
	case *ast.SelectStmt:
		for _, c := range v.Body.List {
			cc := c.(*ast.CommClause)
			cc.Body = in.block(cc.Body)
		}
	case *ast.LabeledStmt:
		v.Stmt = in.rewrite(v.Stmt)
	case *ast.GoStmt:
		in.funcLits(v.Call)
		if !in.sched {
			return s
		}
		in.changed = true
		tid := ast.NewIdent("verifTid")
		return &ast.BlockStmt{List: []ast.Stmt{
			&ast.AssignStmt{Lhs: []ast.Expr{tid}, Tok: token.DEFINE, Rhs: []ast.Expr{&ast.CallExpr{Fun: ast.NewIdent(in.name("Spawn"))}}},
			&ast.GoStmt{Call: &ast.CallExpr{Fun: &ast.FuncLit{
				Type: &ast.FuncType{Params: &ast.FieldList{}},
				Body: &ast.BlockStmt{List: []ast.Stmt{
					&ast.ExprStmt{X: &ast.CallExpr{Fun: ast.NewIdent(in.name("Enter")), Args: []ast.Expr{tid}}},
					&ast.DeferStmt{Call: &ast.CallExpr{Fun: ast.NewIdent(in.name("Leave")), Args: []ast.Expr{tid}}},
					&ast.ExprStmt{X: v.Call},
				}},
			}}},
		}}
	default:
		in.funcLits(s)
	}
	return s
}

func (in *instrumenter) visibleExpr(n ast.Node) bool {
	if n == nil {
		return false
	}
	found := false
	ast.Inspect(n, func(x ast.Node) bool {
		if found {
			return false
		}
		switch v := x.(type) {
		case *ast.FuncLit, *ast.BlockStmt:
			return false
		case *ast.UnaryExpr:
			if v.Op == token.ARROW {
				found = true
			}
		case *ast.CallExpr:
			switch f := v.Fun.(type) {
			case *ast.Ident:
				if obj := in.info.Uses[f]; obj != nil {
					if b, ok := obj.(*types.Builtin); ok && b.Name() == "close" {
						found = true
					}
					if fn, ok := obj.(*types.Func); ok && fn.Name() == "verifYield" {
						found = true
					}
				}
			case *ast.SelectorExpr:
				if fn, ok := in.info.Uses[f.Sel].(*types.Func); ok {
					if exec.InstrumentedCallees[fn.FullName()] {
						found = true
					}
				}
			}
		}
		return true
	})
	return found
}

func (in *instrumenter) hasVisible(s ast.Stmt) bool {
	switch v := s.(type) {
	case *ast.SelectStmt, *ast.SendStmt:
		return true
	case *ast.IfStmt:
		return in.visibleExpr(v.Init) || in.visibleExpr(v.Cond)
	case *ast.ForStmt:
		return in.visibleExpr(v.Init) || in.visibleExpr(v.Cond)
	case *ast.RangeStmt:
		if tv, ok := in.info.Types[v.X]; ok {
			if _, isChan := tv.Type.Underlying().(*types.Chan); isChan {
				return true
			}
		}
		return in.visibleExpr(v.X)
	case *ast.SwitchStmt:
		return in.visibleExpr(v.Init) || in.visibleExpr(v.Tag)
	case *ast.BlockStmt, *ast.TypeSwitchStmt, *ast.GoStmt, *ast.DeferStmt, *ast.LabeledStmt:
		return false
	}
	return in.visibleExpr(s)
}

var _ = parser.ParseFile
