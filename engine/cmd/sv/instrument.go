package main

import (
	"bytes"
	"go/ast"
	"go/parser"
	"go/printer"
	"go/token"
	"go/types"
	"path/filepath"
	"strings"

	"verif/engine/exec"
)

// instrumentForSchedule produces, for every non-test source file of the harness package (repo files and harness overlay
// files, except the runtime), a copy in which verifSched() precedes every statement that performs a visible
// synchronisation operation and every go statement registers the new goroutine with the native scheduler.
// The set of gated operations is exactly exec.InstrumentedCallees + channel send/receive/select/close + verifYield,
// resolved with go/types (so sync.Mutex reached through the repo's internal/sync aliases is recognised).
func instrumentForSchedule(prog *exec.Program) (map[string][]byte, error) {
	out := map[string][]byte{}
	pkg := prog.Pkgs[0]
	for _, file := range pkg.Syntax {
		name := prog.Fset.Position(file.Pos()).Filename
		if filepath.Base(name) == "zz_verif_rt.go" || strings.HasSuffix(name, "_test.go") {
			continue
		}
		in := &instrumenter{info: pkg.TypesInfo}
		for _, d := range file.Decls {
			if fd, ok := d.(*ast.FuncDecl); ok && fd.Body != nil {
				fd.Body.List = in.block(fd.Body.List)
			} else if gd, ok := d.(*ast.GenDecl); ok {
				// function literals in package-level variable initialisers
				ast.Inspect(gd, func(n ast.Node) bool {
					if fl, ok := n.(*ast.FuncLit); ok {
						fl.Body.List = in.block(fl.Body.List)
						return false
					}
					return true
				})
			}
		}
		if !in.changed {
			continue
		}
		var buf bytes.Buffer
		// print without the original comments: they are attached by position and the inserted statements have none
		file.Comments = nil
		if err := printer.Fprint(&buf, token.NewFileSet(), file); err != nil {
			return nil, err
		}
		out[name] = buf.Bytes()
	}
	return out, nil
}

type instrumenter struct {
	info    *types.Info
	changed bool
}

func schedStmt() ast.Stmt {
	return &ast.ExprStmt{X: &ast.CallExpr{Fun: ast.NewIdent("verifSched")}}
}

func (in *instrumenter) block(list []ast.Stmt) []ast.Stmt {
	var out []ast.Stmt
	for _, s := range list {
		s = in.rewrite(s)
		if in.hasVisible(s) {
			out = append(out, schedStmt())
			in.changed = true
		}
		out = append(out, s)
	}
	return out
}

// funcLits instruments the bodies of function literals occurring in the expressions of a statement.
func (in *instrumenter) funcLits(n ast.Node) {
	if n == nil {
		return
	}
	ast.Inspect(n, func(x ast.Node) bool {
		switch v := x.(type) {
		case *ast.FuncLit:
			v.Body.List = in.block(v.Body.List)
			return false
		case *ast.BlockStmt:
			return false
		}
		return true
	})
}

func (in *instrumenter) rewrite(s ast.Stmt) ast.Stmt {
	switch v := s.(type) {
	case *ast.BlockStmt:
		v.List = in.block(v.List)
	case *ast.IfStmt:
		in.funcLits(v.Init)
		in.funcLits(v.Cond)
		v.Body.List = in.block(v.Body.List)
		if v.Else != nil {
			v.Else = in.rewrite(v.Else)
		}
	case *ast.ForStmt:
		in.funcLits(v.Init)
		in.funcLits(v.Cond)
		in.funcLits(v.Post)
		v.Body.List = in.block(v.Body.List)
	case *ast.RangeStmt:
		in.funcLits(v.X)
		v.Body.List = in.block(v.Body.List)
	case *ast.SwitchStmt:
		in.funcLits(v.Init)
		in.funcLits(v.Tag)
		for _, c := range v.Body.List {
			cc := c.(*ast.CaseClause)
			cc.Body = in.block(cc.Body)
		}
	case *ast.TypeSwitchStmt:
		for _, c := range v.Body.List {
			cc := c.(*ast.CaseClause)
			cc.Body = in.block(cc.Body)
		}
	case *ast.SelectStmt:
		for _, c := range v.Body.List {
			cc := c.(*ast.CommClause)
			cc.Body = in.block(cc.Body)
		}
	case *ast.LabeledStmt:
		v.Stmt = in.rewrite(v.Stmt)
	case *ast.GoStmt:
		in.funcLits(v.Call)
		in.changed = true
		tid := ast.NewIdent("verifTid")
		return &ast.BlockStmt{List: []ast.Stmt{
			&ast.AssignStmt{Lhs: []ast.Expr{tid}, Tok: token.DEFINE, Rhs: []ast.Expr{&ast.CallExpr{Fun: ast.NewIdent("verifSpawn")}}},
			&ast.GoStmt{Call: &ast.CallExpr{Fun: &ast.FuncLit{
				Type: &ast.FuncType{Params: &ast.FieldList{}},
				Body: &ast.BlockStmt{List: []ast.Stmt{
					&ast.ExprStmt{X: &ast.CallExpr{Fun: ast.NewIdent("verifEnter"), Args: []ast.Expr{tid}}},
					&ast.DeferStmt{Call: &ast.CallExpr{Fun: ast.NewIdent("verifLeave"), Args: []ast.Expr{tid}}},
					&ast.ExprStmt{X: v.Call},
				}},
			}}},
		}}
	default:
		in.funcLits(s)
	}
	return s
}

func (in *instrumenter) visibleExpr(n ast.Node) bool {
	if n == nil {
		return false
	}
	found := false
	ast.Inspect(n, func(x ast.Node) bool {
		if found {
			return false
		}
		switch v := x.(type) {
		case *ast.FuncLit, *ast.BlockStmt:
			return false
		case *ast.UnaryExpr:
			if v.Op == token.ARROW {
				found = true
			}
		case *ast.CallExpr:
			switch f := v.Fun.(type) {
			case *ast.Ident:
				if obj := in.info.Uses[f]; obj != nil {
					if b, ok := obj.(*types.Builtin); ok && b.Name() == "close" {
						found = true
					}
					if fn, ok := obj.(*types.Func); ok && fn.Name() == "verifYield" {
						found = true
					}
				}
			case *ast.SelectorExpr:
				if fn, ok := in.info.Uses[f.Sel].(*types.Func); ok {
					if exec.InstrumentedCallees[fn.FullName()] {
						found = true
					}
				}
			}
		}
		return true
	})
	return found
}

func (in *instrumenter) hasVisible(s ast.Stmt) bool {
	switch v := s.(type) {
	case *ast.SelectStmt, *ast.SendStmt:
		return true
	case *ast.IfStmt:
		return in.visibleExpr(v.Init) || in.visibleExpr(v.Cond)
	case *ast.ForStmt:
		return in.visibleExpr(v.Init) || in.visibleExpr(v.Cond)
	case *ast.RangeStmt:
		if tv, ok := in.info.Types[v.X]; ok {
			if _, isChan := tv.Type.Underlying().(*types.Chan); isChan {
				return true
			}
		}
		return in.visibleExpr(v.X)
	case *ast.SwitchStmt:
		return in.visibleExpr(v.Init) || in.visibleExpr(v.Tag)
	case *ast.BlockStmt, *ast.TypeSwitchStmt, *ast.GoStmt, *ast.DeferStmt, *ast.LabeledStmt:
		return false
	}
	return in.visibleExpr(s)
}

var _ = parser.ParseFile
