package exec

import (
	"fmt"
	"go/token"
	"go/types"
	"os"
	"strings"

	"golang.org/x/tools/go/ssa"

	"verif/engine/smt"
)

// ---- path control ----

type endKind int

const (
	endOK endKind = iota
	endInfeasible
	endUnsupported
	endUnwind
	endBudget
	endInternal
)

type pathEnd struct {
	kind endKind
	msg  string
}

type Decision struct {
	N    int
	Pick int
	Lbl  string
}

// Input records one symbolic input created by an intrinsic (for replay).
type Input struct {
	Kind string      // byte,bool,int,...,choose,bytes
	Var  *smt.Term   // symbolic variable (nil for concretised choices)
	Vars []*smt.Term // for bytes
	Val  uint64      // concrete value for choose
	Name string
}

type Violation struct {
	Harness  string
	Kind     string // assert | panic | deadlock | race
	Msg      string
	Site     string // signature used for known-finding matching
	Inputs   []ReplayVal
	Sched    []int
	SchedPos []string
	Trace    []string
	PathID   string
}

type ReplayVal struct {
	Kind string   `json:"kind"`
	Val  uint64   `json:"val"`
	Vals []uint64 `json:"vals,omitempty"`
}

type PathResult struct {
	End          pathEnd
	Steps        int
	Decisions    []Decision
	Asserts      int // assertion obligations raised
	Discharged   int
	PanicChecks  int // implicit panic obligations raised (bounds, nil, ...)
	PanicSafe    int // ... shown impossible
	Undischarged []string
	Reached      map[string]bool
	Violations   []*Violation
	Observations []string
	Funcs        map[string]int
	Stubs        map[string]int
	Assumptions  map[string]bool
	Symbolic     bool // path condition constrains at least one input
	Sample       string
	PassWitness  *Violation
	VisibleOps   int
	Threads      int
}

// ---- frames and threads ----

type deferRec struct {
	fn   Value
	args []Value
	ins  ssa.Instruction
}

type Frame struct {
	Fn        *ssa.Function
	Block     *ssa.BasicBlock
	Prev      *ssa.BasicBlock
	PC        int
	Regs      map[ssa.Value]Value
	Defers    []*deferRec
	panicking bool
	panicVal  Value
	panicMsg  string
	recovered bool
	// deferOwner is the frame on whose behalf this frame runs as a deferred call.
	deferOwner *Frame
	onReturn   func(res Value)
	loops      map[*ssa.BasicBlock]int
	loopStamp  map[*ssa.BasicBlock]int
	unwinding  bool // running defers because of a panic
	native     string
	results    Value
	oncePanic  *syncObj
	panicSite  string
}

type threadState int

const (
	tRunnable threadState = iota
	tBlocked
	tDone
)

type Thread struct {
	ID         int
	Stack      []*Frame
	State      threadState
	Wait       *waitRec
	granted    bool // scheduler already let this thread perform its pending visible op
	Name       string
	Died       string // escaped panic message
	NID        int    // logical id in native schedule replay (-1: goroutine started outside instrumented files)
	opRecorded bool
	yielded    bool
	clock      []int // vector clock
	HeldMu     map[Ptr]int
	sleepTimer *ChanObj // pending time.Sleep under the discrete-event clock
}

func (t *Thread) top() *Frame {
	if len(t.Stack) == 0 {
		return nil
	}
	return t.Stack[len(t.Stack)-1]
}

type HarnessCfg struct {
	Name      string
	Tier      string
	Unwind    int
	MaxSteps  int
	MaxVisOps int
	Preempt   int // -1 unbounded
	GoRun     bool
	Opts      map[string]string
}

type Machine struct {
	P              *Program
	Sol            *smt.Solver
	Cfg            *HarnessCfg
	Ex             *Explorer
	prefix         []Decision
	decisions      []Decision
	threads        []*Thread
	cur            *Thread
	globals        map[*ssa.Global]Ptr
	initState      map[*ssa.Package]int
	nextObj        int
	nextVar        int
	inputs         []Input
	pc             []*smt.Term
	Res            *PathResult
	steps          int
	syncObjs       map[Ptr]*syncObj
	threadsOn      bool // preemptive scheduling active
	timersOn       bool
	preempts       int
	sched          []int
	schedPos       []string
	now            *smt.Term
	violSeen       map[string]bool
	strIntern      map[string]Str
	typeIDs        map[types.Type]int
	panicDepth     int
	ghost          map[string]Value
	trace          []string
	reflectTypes   map[string]types.Type
	funcIDs        map[*ssa.Function]int
	errCount       int
	allocs         []allocRec
	access         map[raceKey]*accessRec
	raceDetect     bool
	noAdvanceNext  bool
	dialCalls      int
	dialFails      int
	dialSock       Value
	timers         []*ChanObj
	lastMarshal    Value
	randN          int
	nextNID        int
	probeName      string
	facts          map[string]bool
	model          map[string]uint64
	lastWitness    map[string]uint64
	lastWitnessFor *smt.Term
	witnessFor     map[int]map[string]uint64
	sleepTokens    int
	yeastN         int
	rtypes         map[string]*Opaque
}

func (m *Machine) end(kind endKind, format string, args ...interface{}) {
	panic(pathEnd{kind, fmt.Sprintf(format, args...)})
}

func (m *Machine) freshVar(prefix string, s smt.Sort) *smt.Term {
	m.nextVar++
	return smt.Var(fmt.Sprintf("%s_%d", prefix, m.nextVar), s)
}

// assume adds c to the path condition (without feasibility check).
func (m *Machine) assume(c *smt.Term) {
	if c.IsTrue() {
		return
	}
	if c.IsFalse() {
		m.end(endInfeasible, "assumed false")
	}
	m.pc = append(m.pc, c)
	if c.Size() <= 40 {
		if m.facts == nil {
			m.facts = map[string]bool{}
		}
		m.facts[c.String()] = true
	}
	m.Sol.Assert(c)
	m.Res.Symbolic = true
	if m.model != nil && !m.holdsInModel(c) {
		m.model = nil
	}
}

// holdsInModel reports whether c evaluates to true under the cached model of the path condition.
func (m *Machine) holdsInModel(c *smt.Term) bool {
	if m.model == nil {
		return false
	}
	v, ok := c.Eval(m.model, map[*smt.Term]uint64{})
	return ok && v == 1
}

// inputVars lists the scalar symbolic inputs created so far.
func (m *Machine) inputVars() []*smt.Term {
	var vars []*smt.Term
	for _, in := range m.inputs {
		if in.Var != nil && in.Var.Sort.K != smt.KFP {
			vars = append(vars, in.Var)
		}
		vars = append(vars, in.Vars...)
	}
	return vars
}

// feasible asks the solver whether PC ∧ c is satisfiable; Unknown counts as feasible.
func (m *Machine) feasible(c *smt.Term) bool {
	if c.IsTrue() {
		return true
	}
	if c.IsFalse() {
		return false
	}
	if c.Size() <= 40 && m.facts != nil {
		if m.facts[c.String()] {
			m.Ex.noteModelHit()
			return true
		}
		if m.facts[smt.Not(c).String()] {
			m.Ex.noteModelHit()
			return false
		}
	}
	if m.holdsInModel(c) {
		m.Ex.noteModelHit()
		return true
	}
	vars := m.inputVars()
	if len(vars) > 200 {
		vars = nil
	}
	m.Sol.Quick, m.Sol.OneShotMs = true, 8000
	r, model := m.Sol.Model(c, vars)
	m.Sol.Quick, m.Sol.OneShotMs = false, 0
	if r == smt.Unknown {
		m.Ex.noteUnknown("feasibility", m.Sol.LastErr)
	}
	if r == smt.Sat && vars != nil {
		// remember the witness: if this option is the one taken, it is a model of the new path condition
		m.lastWitness, m.lastWitnessFor = model, c
	}
	return r != smt.Unsat
}

// choose makes an n-way decision. conds[i] (may be nil = unconditional) is the condition under which option i is taken.
// exhaustive says that the disjunction of conds is implied by the path condition.
func (m *Machine) choose(n int, conds []*smt.Term, exhaustive bool, label string) int {
	if len(m.decisions) < len(m.prefix) {
		d := m.prefix[len(m.decisions)]
		if d.N != n {
			m.end(endInternal, "replay divergence at decision %d (%s): have %d options, recorded %d (%s)", len(m.decisions), label, n, d.N, d.Lbl)
		}
		m.decisions = append(m.decisions, d)
		if conds != nil && conds[d.Pick] != nil {
			m.assume(conds[d.Pick])
		}
		return d.Pick
	}
	var feas []int
	for i := 0; i < n; i++ {
		if conds == nil || conds[i] == nil {
			feas = append(feas, i)
			continue
		}
		if conds[i].IsFalse() {
			continue
		}
		// last option of an exhaustive choice with nothing feasible so far must be feasible
		if exhaustive && i == n-1 && len(feas) == 0 {
			feas = append(feas, i)
			continue
		}
		m.lastWitness = nil
		if m.feasible(conds[i]) {
			feas = append(feas, i)
			if m.lastWitness != nil {
				if m.witnessFor == nil {
					m.witnessFor = map[int]map[string]uint64{}
				}
				m.witnessFor[i] = m.lastWitness
			}
		}
	}
	if len(feas) == 0 {
		m.end(endInfeasible, "no feasible option at %s", label)
	}
	base := append([]Decision(nil), m.decisions...)
	for _, alt := range feas[1:] {
		p := append(append([]Decision(nil), base...), Decision{n, alt, label})
		m.Ex.push(p)
	}
	d := Decision{n, feas[0], label}
	m.decisions = append(m.decisions, d)
	if conds != nil && conds[d.Pick] != nil {
		if w := m.witnessFor[d.Pick]; w != nil && !m.holdsInModel(conds[d.Pick]) {
			m.model = w
		}
		m.assume(conds[d.Pick])
	}
	m.witnessFor = nil
	return d.Pick
}

// branch forks on a boolean term and returns the side taken.
func (m *Machine) branch(c *smt.Term, label string) bool {
	if c.IsTrue() {
		return true
	}
	if c.IsFalse() {
		return false
	}
	return m.choose(2, []*smt.Term{c, smt.Not(c)}, true, label) == 0
}

// concretize forks over the feasible values of t within [lo,hi]. On a fresh decision the feasible values are
// enumerated with solver models (one query per feasible value, not per candidate).
func (m *Machine) concretize(t *smt.Term, lo, hi int64, label string) int64 {
	if t.IsConst() {
		return t.SInt()
	}
	if hi < lo {
		m.end(endInfeasible, "empty range at %s", label)
	}
	w := t.Sort.W
	if len(m.decisions) < len(m.prefix) {
		d := m.prefix[len(m.decisions)]
		m.decisions = append(m.decisions, d)
		v := int64(d.Pick) + lo
		m.assume(smt.Eq(t, smt.BV(w, uint64(v))))
		return v
	}
	inRange := smt.And(smt.Sle(smt.BV(w, uint64(lo)), t), smt.Sle(t, smt.BV(w, uint64(hi))))
	var vals []int64
	excl := inRange
	for {
		r, model := m.Sol.Model(excl, []*smt.Term{m.probe(t)})
		if r == smt.Unknown {
			panic(unsupported("solver unknown while enumerating values at " + label))
		}
		if r == smt.Unsat {
			break
		}
		pv := model[m.probeName]
		v := smt.BV(w, pv).SInt()
		vals = append(vals, v)
		if len(vals) > 300 {
			panic(unsupported(fmt.Sprintf("more than 300 feasible values at %s", label)))
		}
		excl = smt.And(excl, smt.Not(smt.Eq(t, smt.BV(w, uint64(v)))))
	}
	if len(vals) == 0 {
		m.end(endInfeasible, "no feasible value at %s", label)
	}
	n := int(hi-lo) + 1
	base := append([]Decision(nil), m.decisions...)
	for _, v := range vals[1:] {
		p := append(append([]Decision(nil), base...), Decision{n, int(v - lo), label})
		m.Ex.push(p)
	}
	d := Decision{n, int(vals[0] - lo), label}
	m.decisions = append(m.decisions, d)
	m.assume(smt.Eq(t, smt.BV(w, uint64(vals[0]))))
	return vals[0]
}

// probe defines a fresh variable equal to t so that its value can be read from a model.
func (m *Machine) probe(t *smt.Term) *smt.Term {
	if t.IsVar() {
		m.probeName = t.Name
		return t
	}
	v := m.freshVar("probe", t.Sort)
	m.Sol.Assert(smt.Eq(v, t))
	m.probeName = v.Name
	return v
}

func (m *Machine) pos(ins ssa.Instruction) string {
	if ins == nil {
		return "?"
	}
	p := ins.Pos()
	fn := ins.Parent()
	if p == token.NoPos {
		// fall back to function position
		if fn != nil {
			return fn.String()
		}
		return "?"
	}
	pp := m.P.Fset.Position(p)
	file := pp.Filename
	if i := strings.LastIndex(file, "/"); i >= 0 {
		file = file[i+1:]
	}
	return fmt.Sprintf("%s:%d", file, pp.Line)
}

// traceCalls (VERIF_TRACE_CALLS=1) records every call into the repository's code in the path trace (debugging aid).
var traceCalls = os.Getenv("VERIF_TRACE_CALLS") != ""

func (m *Machine) note(format string, args ...interface{}) {
	if len(m.trace) < 400 || (traceCalls && len(m.trace) < 6000) {
		m.trace = append(m.trace, fmt.Sprintf(format, args...))
	}
}
