package exec

import (
	"fmt"
	"go/types"
	"strings"

	"golang.org/x/tools/go/ssa"

	"verif/engine/smt"
)

func (m *Machine) callNative(t *Thread, name string, args []Value, ins ssa.Instruction, onRet func(Value), advance func(), deferOwner *Frame) {
	ret := func(v Value) {
		onRet(v)
		advance()
	}
	if strings.HasPrefix(name, "rtype:") {
		m.rtypeMethod(t, name[6:], args, ins, ret)
		return
	}
	if !strings.HasPrefix(name, "builtin:") {
		panic(unsupported("native " + name))
	}
	switch name[8:] {
	case "len":
		if mp, ok := args[0].(*MapObj); ok {
			m.raceMap(t, mp, false, ins)
		}
		ret(m.builtinLen(args[0]))
	case "cap":
		switch a := args[0].(type) {
		case Slice:
			ret(smt.BV(64, uint64(a.Cap)))
		case AbsSlice:
			ret(a.Cap)
		case *ChanObj:
			if a == nil {
				ret(smt.BV(64, 0))
			} else {
				ret(smt.BV(64, uint64(a.Cap)))
			}
		case Ptr:
			ret(smt.BV(64, uint64(len(a.C.E[a.I].(*Cells).E))))
		case *Cells:
			ret(smt.BV(64, uint64(len(a.E))))
		default:
			panic(unsupported(fmt.Sprintf("cap of %T", a)))
		}
	case "append":
		ret(m.builtinAppend(args[0], args[1], ins))
	case "copy":
		ret(m.builtinCopy(args[0], args[1], ins))
	case "delete":
		m.raceMap(t, args[0].(*MapObj), true, ins)
		m.mapDelete(args[0].(*MapObj), args[1])
		ret(nil)
	case "close":
		if !m.chanClose(t, args[0].(*ChanObj), ins) {
			return
		}
		ret(nil)
	case "recover":
		ret(m.doRecover(t, t.top()))
	case "print", "println":
		ret(nil)
	case "min", "max":
		var tp types.Type
		if c, ok := ins.(ssa.CallInstruction); ok {
			tp = c.Common().Args[0].Type()
		}
		_, signed, _ := bvWidth(tp)
		r := args[0].(*smt.Term)
		if r.Sort.K != smt.KBV {
			panic(unsupported("min/max on non-integers"))
		}
		for _, a := range args[1:] {
			y := a.(*smt.Term)
			var lt *smt.Term
			if name[8:] == "min" {
				if signed {
					lt = smt.Slt(y, r)
				} else {
					lt = smt.Ult(y, r)
				}
			} else {
				if signed {
					lt = smt.Slt(r, y)
				} else {
					lt = smt.Ult(r, y)
				}
			}
			r = smt.Ite(lt, y, r)
		}
		ret(r)
	case "clear":
		switch a := args[0].(type) {
		case *MapObj:
			if a != nil {
				for _, e := range a.E {
					e.Live = false
				}
			}
		case Slice:
			var et types.Type
			if c, ok := ins.(ssa.CallInstruction); ok {
				et = c.Common().Args[0].Type().Underlying().(*types.Slice).Elem()
			}
			for k := 0; k < a.Len; k++ {
				m.storeCell(a.C, a.Off+k, m.zero(et))
			}
		}
		ret(nil)
	case "String": // unsafe.String(ptr, len)
		p := args[0].(Ptr)
		n := args[1].(*smt.Term)
		if !n.IsConst() {
			panic(unsupported("unsafe.String with symbolic length"))
		}
		k := int(n.SInt())
		out := make([]*smt.Term, k)
		for i := 0; i < k; i++ {
			out[i] = p.C.E[p.I+i].(*smt.Term)
		}
		ret(Str{out})
	case "Slice": // unsafe.Slice(ptr, len)
		p := args[0].(Ptr)
		n := args[1].(*smt.Term)
		if !n.IsConst() {
			panic(unsupported("unsafe.Slice with symbolic length"))
		}
		k := int(n.SInt())
		if p.C == nil {
			ret(Slice{Nil: true})
		} else {
			ret(Slice{C: p.C, Off: p.I, Len: k, Cap: k})
		}
	case "SliceData":
		sl := args[0].(Slice)
		if sl.Nil {
			ret(Ptr{})
		} else {
			ret(Ptr{sl.C, sl.Off})
		}
	case "StringData":
		st := args[0].(Str)
		c := m.newCells(len(st.B) + 1)
		for i, b := range st.B {
			c.E[i] = b
		}
		c.E[len(st.B)] = smt.BV(8, 0)
		ret(Ptr{c, 0})
	case "ssa:deferstack":
		ret(&Opaque{Tag: "deferstack"})
	case "ssa:wrapnilchk":
		p := args[0].(Ptr)
		if p.C == nil {
			m.goPanic(t, "value method called using nil pointer", ins)
			return
		}
		ret(p)
	default:
		panic(unsupported("builtin " + name))
	}
}

func (m *Machine) builtinLen(v Value) Value {
	switch a := v.(type) {
	case Str:
		return smt.BV(64, uint64(len(a.B)))
	case Slice:
		return smt.BV(64, uint64(a.Len))
	case AbsSlice:
		return a.Len
	case *MapObj:
		return smt.BV(64, uint64(m.mapLen(a)))
	case *ChanObj:
		if a == nil {
			return smt.BV(64, 0)
		}
		return smt.BV(64, uint64(len(a.Buf)))
	case Ptr:
		return smt.BV(64, uint64(len(a.C.E[a.I].(*Cells).E)))
	case *Cells:
		return smt.BV(64, uint64(len(a.E)))
	}
	panic(unsupported(fmt.Sprintf("len of %T", v)))
}

func (m *Machine) sliceElems(v Value) []Value {
	switch a := v.(type) {
	case Slice:
		if a.Nil || a.Len == 0 {
			return nil
		}
		if m.raceOn() && m.cur != nil {
			for k := 0; k < a.Len; k++ {
				m.raceRead(m.cur, Ptr{a.C, a.Off + k}, nil)
			}
		}
		return a.C.E[a.Off : a.Off+a.Len]
	case Str:
		out := make([]Value, len(a.B))
		for i, b := range a.B {
			out[i] = b
		}
		return out
	}
	panic(unsupported(fmt.Sprintf("elements of %T", v)))
}

func (m *Machine) builtinAppend(dst, src Value, ins ssa.Instruction) Value {
	if _, ok := dst.(AbsSlice); ok {
		panic(unsupported("append to abstract slice"))
	}
	if _, ok := src.(AbsSlice); ok {
		panic(unsupported("append of abstract slice"))
	}
	d := dst.(Slice)
	elems := m.sliceElems(src)
	n := len(elems)
	if n == 0 {
		return d
	}
	// copy source first (may alias destination)
	tmp := make([]Value, n)
	for i, e := range elems {
		tmp[i] = m.copyVal(e)
	}
	if !d.Nil && d.Len+n <= d.Cap {
		for i, e := range tmp {
			m.raceWrite(m.cur, Ptr{d.C, d.Off + d.Len + i}, ins)
			m.storeCell(d.C, d.Off+d.Len+i, e)
		}
		return Slice{C: d.C, Off: d.Off, Len: d.Len + n, Cap: d.Cap}
	}
	need := d.Len + n
	newCap := need
	if d.Cap*2 > newCap {
		newCap = d.Cap * 2
	}
	c := m.newCells(newCap)
	for i := 0; i < d.Len; i++ {
		c.E[i] = m.copyVal(d.C.E[d.Off+i])
	}
	for i, e := range tmp {
		c.E[d.Len+i] = e
	}
	// zero the spare capacity with a value of the element type
	if newCap > need {
		var et types.Type
		if ci, ok := ins.(ssa.CallInstruction); ok && len(ci.Common().Args) > 0 {
			if st, ok := ci.Common().Args[0].Type().Underlying().(*types.Slice); ok {
				et = st.Elem()
			}
		}
		for i := need; i < newCap; i++ {
			if et != nil {
				c.E[i] = m.zero(et)
			} else {
				c.E[i] = m.copyVal(tmp[0])
			}
		}
	}
	return Slice{C: c, Off: 0, Len: need, Cap: newCap}
}

func (m *Machine) builtinCopy(dst, src Value, ins ssa.Instruction) Value {
	if ad, ok := dst.(AbsSlice); ok {
		return m.absCopy(ad, src)
	}
	if as, ok := src.(AbsSlice); ok {
		_ = as
		panic(unsupported("copy from abstract slice into concrete slice"))
	}
	d := dst.(Slice)
	elems := m.sliceElems(src)
	n := len(elems)
	if d.Len < n {
		n = d.Len
	}
	tmp := make([]Value, n)
	for i := 0; i < n; i++ {
		tmp[i] = m.copyVal(elems[i])
	}
	for i := 0; i < n; i++ {
		m.raceWrite(m.cur, Ptr{d.C, d.Off + i}, ins)
		m.storeCell(d.C, d.Off+i, tmp[i])
	}
	return smt.BV(64, uint64(n))
}

func (m *Machine) absCopy(d AbsSlice, src Value) Value {
	switch s := src.(type) {
	case AbsSlice:
		// n = min(len d, len s); contents: havoc destination (sound over-approximation for size reasoning)
		n := smt.Ite(smt.Ult(d.Len, s.Len), d.Len, s.Len)
		d.B.Arr = m.zeroArr()
		m.Res.Assumptions["copy between abstract slices havocs destination contents"] = true
		return n
	case Slice, Str:
		elems := m.sliceElems(s)
		k := smt.BV(64, uint64(len(elems)))
		n := smt.Ite(smt.Ult(d.Len, k), d.Len, k)
		d.B.Arr = m.zeroArr()
		m.Res.Assumptions["copy into abstract slice havocs destination contents"] = true
		return n
	}
	panic(unsupported("copy into abstract slice"))
}
