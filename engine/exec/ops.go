package exec

import (
	"fmt"
	"go/token"
	"go/types"
	"math"

	"golang.org/x/tools/go/ssa"

	"verif/engine/smt"
)

// binop evaluates x op y. A non-empty second result is a Go runtime panic message.
func (m *Machine) binop(op token.Token, x, y Value, xt, yt types.Type, ins ssa.Instruction) (Value, string) {
	switch a := x.(type) {
	case *smt.Term:
		b, ok := y.(*smt.Term)
		if !ok {
			panic(fmt.Sprintf("internal: binop operand mismatch %T %T at %s", x, y, m.pos(ins)))
		}
		switch a.Sort.K {
		case smt.KBool:
			switch op {
			case token.EQL:
				return smt.Eq(a, b), ""
			case token.NEQ:
				return smt.Not(smt.Eq(a, b)), ""
			case token.LAND, token.AND:
				return smt.And(a, b), ""
			case token.LOR, token.OR:
				return smt.Or(a, b), ""
			}
		case smt.KFP:
			switch op {
			case token.ADD:
				return smt.FBin("fp.add", a, b), ""
			case token.SUB:
				return smt.FBin("fp.sub", a, b), ""
			case token.MUL:
				return smt.FBin("fp.mul", a, b), ""
			case token.QUO:
				return smt.FBin("fp.div", a, b), ""
			case token.LSS:
				return smt.FCmp("fp.lt", a, b), ""
			case token.LEQ:
				return smt.FCmp("fp.leq", a, b), ""
			case token.GTR:
				return smt.FCmp("fp.gt", a, b), ""
			case token.GEQ:
				return smt.FCmp("fp.geq", a, b), ""
			case token.EQL:
				return smt.FCmp("fp.eq", a, b), ""
			case token.NEQ:
				return smt.Not(smt.FCmp("fp.eq", a, b)), ""
			}
		case smt.KBV:
			_, signed, _ := bvWidth(xt)
			switch op {
			case token.SHL, token.SHR:
				return m.shift(op, a, b, signed, yt), ""
			}
			if a.Sort != b.Sort {
				panic(fmt.Sprintf("internal: bv width mismatch %v %v at %s", a.Sort, b.Sort, m.pos(ins)))
			}
			switch op {
			case token.ADD:
				return smt.Add(a, b), ""
			case token.SUB:
				return smt.Sub(a, b), ""
			case token.MUL:
				return smt.Mul(a, b), ""
			case token.QUO, token.REM:
				zero := smt.Eq(b, smt.BV(b.Sort.W, 0))
				if !zero.IsFalse() {
					m.Res.PanicChecks++
					if m.branch(zero, "divzero@"+m.pos(ins)) {
						return nil, "runtime error: integer divide by zero"
					}
					m.Res.PanicSafe++
				}
				if op == token.QUO {
					if signed {
						return smt.SDiv(a, b), ""
					}
					return smt.UDiv(a, b), ""
				}
				if signed {
					return smt.SRem(a, b), ""
				}
				return smt.URem(a, b), ""
			case token.AND:
				return smt.BvAnd(a, b), ""
			case token.OR:
				return smt.BvOr(a, b), ""
			case token.XOR:
				return smt.BvXor(a, b), ""
			case token.AND_NOT:
				return smt.BvAnd(a, smt.BvNot(b)), ""
			case token.EQL:
				return smt.Eq(a, b), ""
			case token.NEQ:
				return smt.Not(smt.Eq(a, b)), ""
			case token.LSS:
				if signed {
					return smt.Slt(a, b), ""
				}
				return smt.Ult(a, b), ""
			case token.LEQ:
				if signed {
					return smt.Sle(a, b), ""
				}
				return smt.Ule(a, b), ""
			case token.GTR:
				if signed {
					return smt.Slt(b, a), ""
				}
				return smt.Ult(b, a), ""
			case token.GEQ:
				if signed {
					return smt.Sle(b, a), ""
				}
				return smt.Ule(b, a), ""
			}
		}
	case Str:
		b := y.(Str)
		switch op {
		case token.ADD:
			r := make([]*smt.Term, 0, len(a.B)+len(b.B))
			r = append(r, a.B...)
			r = append(r, b.B...)
			return Str{r}, ""
		case token.EQL:
			return strEq(a, b), ""
		case token.NEQ:
			return smt.Not(strEq(a, b)), ""
		case token.LSS:
			return strLess(a, b, false), ""
		case token.LEQ:
			return strLess(a, b, true), ""
		case token.GTR:
			return strLess(b, a, false), ""
		case token.GEQ:
			return strLess(b, a, true), ""
		}
	default:
		switch op {
		case token.EQL:
			return m.equal(x, y, ins), ""
		case token.NEQ:
			return smt.Not(m.equal(x, y, ins)), ""
		}
	}
	panic(unsupported(fmt.Sprintf("binop %s on %T at %s", op, x, m.pos(ins))))
}

func (m *Machine) shift(op token.Token, a, b *smt.Term, signed bool, yt types.Type) *smt.Term {
	w := a.Sort.W
	// Go: shift counts are unsigned (negative signed count panics; ignored here: counts in the code under test are unsigned or constant)
	var cnt *smt.Term
	if b.Sort.W == w {
		cnt = b
	} else if b.Sort.W < w {
		cnt = smt.ZExt(w, b)
	} else {
		// wider count: saturate
		big := smt.Not(smt.Ult(b, smt.BV(b.Sort.W, uint64(w))))
		cnt = smt.Ite(big, smt.BV(w, uint64(w)), smt.Extract(w-1, 0, b))
	}
	if op == token.SHL {
		return smt.Shl(a, cnt)
	}
	if signed {
		return smt.AShr(a, cnt)
	}
	return smt.LShr(a, cnt)
}

func strEq(a, b Str) *smt.Term {
	if len(a.B) != len(b.B) {
		return smt.False
	}
	r := smt.True
	for i := range a.B {
		r = smt.And(r, smt.Eq(a.B[i], b.B[i]))
		if r.IsFalse() {
			return r
		}
	}
	return r
}

// strLess: lexicographic a < b (or <= when orEq).
func strLess(a, b Str, orEq bool) *smt.Term {
	n := len(a.B)
	if len(b.B) < n {
		n = len(b.B)
	}
	// result if all first n bytes equal
	var tail *smt.Term
	if orEq {
		tail = smt.Bool(len(a.B) <= len(b.B))
	} else {
		tail = smt.Bool(len(a.B) < len(b.B))
	}
	r := tail
	for i := n - 1; i >= 0; i-- {
		r = smt.Ite(smt.Eq(a.B[i], b.B[i]), r, smt.Ult(a.B[i], b.B[i]))
	}
	return r
}

// equal implements == for non-scalar comparable values.
func (m *Machine) equal(x, y Value, ins ssa.Instruction) *smt.Term {
	switch a := x.(type) {
	case nil:
		return smt.Bool(isNilValue(y))
	case *smt.Term:
		b, ok := y.(*smt.Term)
		if !ok || a.Sort != b.Sort {
			return smt.False
		}
		if a.Sort.K == smt.KFP {
			return smt.FCmp("fp.eq", a, b)
		}
		return smt.Eq(a, b)
	case Str:
		b, ok := y.(Str)
		if !ok {
			return smt.False
		}
		return strEq(a, b)
	case Ptr:
		b, ok := y.(Ptr)
		if !ok {
			return smt.Bool(a.C == nil && isNilValue(y))
		}
		return smt.Bool(a.C == b.C && (a.C == nil || a.I == b.I))
	case Iface:
		b, ok := y.(Iface)
		if !ok {
			return smt.Bool(a.T == nil && isNilValue(y))
		}
		if a.T == nil || b.T == nil {
			return smt.Bool(a.T == nil && b.T == nil)
		}
		if !types.Identical(a.T, b.T) {
			return smt.False
		}
		if !types.Comparable(a.T) {
			panic(unsupported("comparing uncomparable dynamic type " + a.T.String()))
		}
		return m.equal(a.V, b.V, ins)
	case *Cells:
		b, ok := y.(*Cells)
		if !ok || len(a.E) != len(b.E) {
			return smt.False
		}
		r := smt.True
		for i := range a.E {
			r = smt.And(r, m.equal(a.E[i], b.E[i], ins))
		}
		return r
	case *Closure:
		b, ok := y.(*Closure)
		if !ok {
			return smt.Bool(a == nil && isNilValue(y))
		}
		if a == nil || b == nil {
			return smt.Bool(a == nil && b == nil)
		}
		panic(unsupported("comparing non-nil funcs"))
	case *MapObj:
		b, _ := y.(*MapObj)
		return smt.Bool(a == b)
	case *ChanObj:
		b, _ := y.(*ChanObj)
		return smt.Bool(a == b)
	case Slice:
		if b, ok := y.(Slice); ok {
			if a.Nil || b.Nil {
				return smt.Bool(a.Nil && b.Nil)
			}
		}
		panic(unsupported("slice comparison"))
	case *Opaque:
		b, ok := y.(*Opaque)
		if !ok {
			return smt.False
		}
		return smt.Bool(a == b)
	}
	panic(unsupported(fmt.Sprintf("equality on %T at %s", x, m.pos(ins))))
}

func isNilValue(v Value) bool {
	switch a := v.(type) {
	case nil:
		return true
	case Ptr:
		return a.C == nil
	case Iface:
		return a.T == nil
	case Slice:
		return a.Nil
	case *Closure:
		return a == nil
	case *MapObj:
		return a == nil
	case *ChanObj:
		return a == nil
	}
	return false
}

// convert implements ssa.Convert.
func (m *Machine) convert(x Value, from, to types.Type, ins ssa.Instruction) Value {
	fu, tu := from.Underlying(), to.Underlying()
	// numeric -> numeric
	if tw, tsigned, ok := bvWidth(to); ok {
		_ = tsigned
		if fw, fsigned, ok2 := bvWidth(from); ok2 {
			t := x.(*smt.Term)
			if tw == fw {
				return t
			}
			if tw < fw {
				return smt.Extract(tw-1, 0, t)
			}
			if fsigned {
				return smt.SExt(tw, t)
			}
			return smt.ZExt(tw, t)
		}
		if _, ok2 := isFloat(from); ok2 {
			return m.floatToInt(x.(*smt.Term), tw, tsigned)
		}
		if _, isPtr := fu.(*types.Pointer); isPtr {
			panic(unsupported("pointer to integer conversion"))
		}
		if b, isB := fu.(*types.Basic); isB && b.Kind() == types.UnsafePointer {
			panic(unsupported("unsafe.Pointer to uintptr"))
		}
	}
	if tw, ok := isFloat(to); ok {
		if _, fsigned, ok2 := bvWidth(from); ok2 {
			t := x.(*smt.Term)
			if fsigned {
				return smt.SBVToFP(tw, t)
			}
			return smt.UBVToFP(tw, t)
		}
		if _, ok2 := isFloat(from); ok2 {
			return smt.FToFP(tw, x.(*smt.Term))
		}
	}
	if isString(to) {
		if isString(from) {
			return x
		}
		if sl, ok := fu.(*types.Slice); ok {
			if b, ok := sl.Elem().Underlying().(*types.Basic); ok && b.Kind() == types.Uint8 {
				if as, isAbs := x.(AbsSlice); isAbs {
					_ = as
					panic(unsupported("string(abstract bytes)"))
				}
				s := x.(Slice)
				out := make([]*smt.Term, s.Len)
				for k := 0; k < s.Len; k++ {
					out[k] = s.C.E[s.Off+k].(*smt.Term)
				}
				return Str{out}
			}
			panic(unsupported("string([]rune)"))
		}
		if _, _, ok := bvWidth(from); ok {
			t := x.(*smt.Term)
			if t.IsConst() {
				return mkStr(string(rune(t.SInt())))
			}
			panic(unsupported("string(symbolic rune)"))
		}
	}
	if sl, ok := tu.(*types.Slice); ok {
		if isString(from) {
			if b, ok := sl.Elem().Underlying().(*types.Basic); ok && b.Kind() == types.Uint8 {
				s := x.(Str)
				c := m.newCells(len(s.B))
				for k, bt := range s.B {
					c.E[k] = bt
				}
				return Slice{C: c, Off: 0, Len: len(s.B), Cap: len(s.B)}
			}
			// []rune(string): concrete only
			if cs, ok := concreteStr(x.(Str)); ok {
				rs := []rune(cs)
				c := m.newCells(len(rs))
				for k, r := range rs {
					c.E[k] = smt.BV(32, uint64(r))
				}
				return Slice{C: c, Len: len(rs), Cap: len(rs)}
			}
			panic(unsupported("[]rune(symbolic string)"))
		}
		if _, ok := fu.(*types.Slice); ok {
			return x
		}
	}
	if _, ok := tu.(*types.Pointer); ok {
		return x // pointer <-> unsafe.Pointer
	}
	if b, ok := tu.(*types.Basic); ok && b.Kind() == types.UnsafePointer {
		return x
	}
	panic(unsupported(fmt.Sprintf("convert %s -> %s at %s", from, to, m.pos(ins))))
}

// floatToInt models amd64: truncation toward zero; out-of-range and NaN give the "integer indefinite" value 0x80..0
// for signed 64/32-bit targets. Narrower/unsigned targets are converted through int64 as the gc compiler does.
func (m *Machine) floatToInt(f *smt.Term, w int, signed bool) Value {
	if f.IsConst() {
		var x float64
		if f.Sort.W == 32 {
			x = float64(math.Float32frombits(uint32(f.U)))
		} else {
			x = math.Float64frombits(f.U)
		}
		var v int64
		if x != x || x >= 9223372036854775808.0 || x < -9223372036854775808.0 {
			v = math.MinInt64
		} else {
			v = int64(x)
		}
		if !signed && w == 64 {
			// gc on amd64: uint64(f) for f >= 2^63 uses a subtract-and-flip sequence
			if x >= 9223372036854775808.0 && x < 18446744073709551616.0 {
				return smt.BV(64, uint64(x))
			}
		}
		return smt.BV(w, uint64(v))
	}
	m.Res.Assumptions["float->int conversion follows amd64 (out-of-range = MinInt64)"] = true
	f64 := smt.FToFP(64, f)
	lim := smt.F64(9223372036854775808.0)
	inRange := smt.And(smt.FCmp("fp.lt", f64, lim), smt.FCmp("fp.geq", f64, smt.F64(-9223372036854775808.0)))
	conv := smt.FToSBVRaw(64, f64)
	r := smt.Ite(inRange, conv, smt.BV(64, 1<<63))
	if !signed && w == 64 {
		panic(unsupported("symbolic float -> uint64"))
	}
	if w < 64 {
		return smt.Extract(w-1, 0, r)
	}
	return r
}
