package exec

import (
	"fmt"
	"go/token"
	"go/types"
	"os"
	"path/filepath"
	"strings"
	"sync"
	"sync/atomic"

	"golang.org/x/tools/go/packages"
	"golang.org/x/tools/go/ssa"
	"golang.org/x/tools/go/ssa/ssautil"
)

const RepoModule = "github.com/karagenc/socket.io-go"

type Program struct {
	Prog *ssa.Program
	Fset *token.FileSet
	Pkg  *ssa.Package // harness package
	Pkgs []*packages.Package
	mu   sync.Mutex
	// building counts package builds in progress: ssa builds function bodies in place, so a worker must not look at any
	// function (generic instances and wrappers belong to no package) while another worker's Build is running
	building  atomic.Int32
	built     map[*ssa.Package]bool
	builtFast sync.Map
	errType   types.Type
	rtypeT    types.Type
	msCache   sync.Map
	RepoDir   string
	Overlay   map[string][]byte
	PkgPath   string
	PkgDir    string
}

// Load loads pkgPath (relative to the repo module, "" = root) with overlay files injected.
func Load(repoDir, pkgRel string, overlay map[string][]byte) (*Program, error) {
	cfg := &packages.Config{
		Mode: packages.NeedName | packages.NeedFiles | packages.NeedCompiledGoFiles | packages.NeedImports |
			packages.NeedDeps | packages.NeedTypes | packages.NeedSyntax | packages.NeedTypesInfo | packages.NeedTypesSizes | packages.NeedModule,
		Dir:     repoDir,
		Overlay: overlay,
		Env:     append(os.Environ(), "GOFLAGS=-mod=mod", "GOPROXY=off", "GOSUMDB=off", "GOTOOLCHAIN=local"),
	}
	pat := "./" + pkgRel
	if pkgRel == "" {
		pat = "."
	}
	pkgs, err := packages.Load(cfg, pat)
	if err != nil {
		return nil, err
	}
	if len(pkgs) != 1 {
		return nil, fmt.Errorf("expected 1 package for %s, got %d", pat, len(pkgs))
	}
	var errs []string
	packages.Visit(pkgs, nil, func(p *packages.Package) {
		for _, e := range p.Errors {
			errs = append(errs, e.Error())
		}
	})
	if len(errs) > 0 {
		if len(errs) > 12 {
			errs = errs[:12]
		}
		return nil, fmt.Errorf("package errors:\n%s", strings.Join(errs, "\n"))
	}
	prog, spkgs := ssautil.AllPackages(pkgs, ssa.InstantiateGenerics)
	p := &Program{Prog: prog, Fset: prog.Fset, Pkg: spkgs[0], Pkgs: pkgs, built: map[*ssa.Package]bool{}, RepoDir: repoDir, Overlay: overlay}
	if p.Pkg == nil {
		return nil, fmt.Errorf("no SSA package for %s", pat)
	}
	p.PkgPath = p.Pkg.Pkg.Path()
	p.PkgDir = filepath.Join(repoDir, pkgRel)
	p.build(p.Pkg)
	if ep := prog.ImportedPackage("errors"); ep != nil {
		p.build(ep)
		if t := ep.Type("errorString"); t != nil {
			p.errType = types.NewPointer(t.Type())
		}
	}
	return p, nil
}

func (p *Program) build(pkg *ssa.Package) {
	if pkg == nil {
		return
	}
	p.mu.Lock()
	defer p.mu.Unlock()
	if p.built[pkg] {
		return
	}
	p.building.Add(1)
	pkg.Build()
	p.built[pkg] = true
	p.builtFast.Store(pkg, true)
	p.building.Add(-1)
}

// isBuilt reports whether the package's functions have been built completely.
func (p *Program) isBuilt(pkg *ssa.Package) bool {
	_, ok := p.builtFast.Load(pkg)
	return ok
}

// waitBuild returns once no package build is in progress.
func (p *Program) waitBuild() {
	if p.building.Load() != 0 {
		p.mu.Lock()
		p.mu.Unlock() //nolint:staticcheck // barrier only
	}
}

func (p *Program) lookupMethod(t types.Type, meth *types.Func) *ssa.Function {
	type key struct {
		t types.Type
		m *types.Func
	}
	k := key{t, meth}
	if v, ok := p.msCache.Load(k); ok {
		return v.(*ssa.Function)
	}
	p.mu.Lock()
	fn := p.Prog.LookupMethod(t, meth.Pkg(), meth.Name())
	p.mu.Unlock()
	if fn != nil {
		p.msCache.Store(k, fn)
	}
	return fn
}

func (p *Program) implements(t types.Type, it *types.Interface) bool {
	return types.Implements(t, it)
}

var denyPkgs = map[string]bool{
	"runtime": true, "reflect": true, "syscall": true, "os": true, "net": true, "net/http": true,
	"time": true, "sync": true, "sync/atomic": true, "fmt": true, "log": true, "encoding/json": true,
	"unsafe": true, "math/rand": true, "crypto/rand": true, "context": true,
	"nhooyr.io/websocket": true, "compress/gzip": true, "bufio": true,
}

// allowed reports whether fn may be executed from its SSA body.
func (p *Program) allowed(fn *ssa.Function) bool {
	pkg := fn.Pkg
	if pkg == nil {
		if fn.Origin() != nil && fn.Origin().Pkg != nil {
			pkg = fn.Origin().Pkg
		} else if fn.Parent() != nil {
			return p.allowed(fn.Parent())
		} else {
			// synthetic wrappers / bound methods / instantiations
			if o := fn.Object(); o != nil && o.Pkg() != nil {
				return p.allowedPath(o.Pkg().Path())
			}
			return true
		}
	}
	return p.allowedPath(pkg.Pkg.Path())
}

func (p *Program) allowedPath(path string) bool {
	if denyPkgs[path] {
		return false
	}
	if strings.HasPrefix(path, "internal/") && path != "internal/bytealg" && path != "internal/stringslite" && path != "internal/byteorder" && path != "internal/itoa" {
		return false
	}
	if strings.HasPrefix(path, "runtime/") || strings.HasPrefix(path, "github.com/quic-go") || strings.HasPrefix(path, "crypto/") || (strings.HasPrefix(path, "net/") && path != "net/url") {
		return false
	}
	return true
}

func (p *Program) runtimeErrorType() types.Type { return p.errType }

// FindHarnesses lists functions named verifH_<prop>_* in the harness package.
func (p *Program) FindHarnesses(prefix string) []*ssa.Function {
	var out []*ssa.Function
	for name, mem := range p.Pkg.Members {
		if fn, ok := mem.(*ssa.Function); ok && strings.HasPrefix(name, prefix) {
			out = append(out, fn)
		}
	}
	return out
}

// HarnessDoc returns the doc comment directives (//verif:key value) of a harness function.
func (p *Program) HarnessDoc(fn *ssa.Function) map[string]string {
	out := map[string]string{}
	file := p.Fset.Position(fn.Pos()).Filename
	src, ok := p.Overlay[file]
	if !ok {
		b, err := os.ReadFile(file)
		if err != nil {
			return out
		}
		src = b
	}
	lines := strings.Split(string(src), "\n")
	ln := p.Fset.Position(fn.Pos()).Line - 2
	for ; ln >= 0; ln-- {
		l := strings.TrimSpace(lines[ln])
		if !strings.HasPrefix(l, "//") {
			break
		}
		if strings.HasPrefix(l, "//verif:") {
			kv := strings.SplitN(strings.TrimPrefix(l, "//verif:"), " ", 2)
			v := ""
			if len(kv) > 1 {
				v = strings.TrimSpace(kv[1])
			}
			out[kv[0]] = v
		}
	}
	return out
}

var _ = filepath.Join

// inHarnessPkg reports whether ins is located in a non-test source file of the repository (the harness package, harness
// overlay files, or any other package of the module): those files are instrumented for native schedule replay, the
// harness package directly and the others through hook variables (see cmd/sv/instrument.go).
func (p *Program) inHarnessPkg(ins ssa.Instruction) bool {
	if ins == nil || ins.Pos() == token.NoPos {
		// verifGo is called from harness code: its call instruction has a position; anything without one is not instrumented
		return false
	}
	file := p.Fset.Position(ins.Pos()).Filename
	return strings.HasPrefix(file, p.RepoDir+string(filepath.Separator)) && !strings.HasSuffix(file, "_test.go")
}
