package exec

import (
	"fmt"
	"go/constant"
	"go/types"
	"math"
	"reflect"
	"strconv"
	"strings"

	"golang.org/x/tools/go/ssa"

	"verif/engine/smt"
)

type stubCtx struct {
	m          *Machine
	t          *Thread
	fn         *ssa.Function
	args       []Value
	ins        ssa.Instruction
	onRet      func(Value)
	advance    func()
	deferOwner *Frame
}

func (c *stubCtx) ret(v Value) {
	c.onRet(v)
	c.advance()
}

type stubFn func(c *stubCtx)

func stubName(fn *ssa.Function) string {
	if fn.Pkg != nil && strings.HasPrefix(fn.Name(), "verif") && fn.Signature.Recv() == nil {
		return fn.Name()
	}
	if o := fn.Origin(); o != nil {
		return o.String()
	}
	return fn.String()
}

func (m *Machine) findStub(fn *ssa.Function) stubFn {
	name := stubName(fn)
	if h, ok := stubTable[name]; ok {
		return h
	}
	return nil
}

var stubTable = map[string]stubFn{}

func init() {
	base := map[string]stubFn{
		// ---- intrinsics ----
		"verifAnyBool":    func(c *stubCtx) { c.ret(c.m.newInput("bool", smt.SBool)) },
		"verifAnyByte":    func(c *stubCtx) { c.ret(c.m.newInput("byte", smt.SBV(8))) },
		"verifAnyUint16":  func(c *stubCtx) { c.ret(c.m.newInput("u16", smt.SBV(16))) },
		"verifAnyInt32":   func(c *stubCtx) { c.ret(c.m.newInput("i32", smt.SBV(32))) },
		"verifAnyUint32":  func(c *stubCtx) { c.ret(c.m.newInput("u32", smt.SBV(32))) },
		"verifAnyInt":     func(c *stubCtx) { c.ret(c.m.newInput("int", smt.SBV(64))) },
		"verifAnyInt64":   func(c *stubCtx) { c.ret(c.m.newInput("i64", smt.SBV(64))) },
		"verifAnyUint64":  func(c *stubCtx) { c.ret(c.m.newInput("u64", smt.SBV(64))) },
		"verifAnyFloat64": func(c *stubCtx) { c.ret(c.m.newInput("f64", smt.SFP(64))) },
		"verifAnyFloat32": func(c *stubCtx) { c.ret(c.m.newInput("f32", smt.SFP(32))) },
		"verifChoose": func(c *stubCtx) {
			lo, hi := c.args[0].(*smt.Term), c.args[1].(*smt.Term)
			if !lo.IsConst() || !hi.IsConst() {
				panic(unsupported("verifChoose with symbolic range"))
			}
			n := int(hi.SInt()-lo.SInt()) + 1
			if n <= 0 {
				c.m.end(endInfeasible, "empty verifChoose")
			}
			k := c.m.choose(n, nil, false, "verifChoose@"+c.m.pos(c.ins))
			v := lo.SInt() + int64(k)
			c.m.inputs = append(c.m.inputs, Input{Kind: "choose", Val: uint64(v)})
			c.ret(smt.BV(64, uint64(v)))
		},
		"verifAssume": func(c *stubCtx) {
			cond := c.args[0].(*smt.Term)
			if cond.IsTrue() {
				c.ret(nil)
				return
			}
			if !c.m.feasible(cond) {
				c.m.end(endInfeasible, "assumption infeasible at %s", c.m.pos(c.ins))
			}
			c.m.assume(cond)
			c.ret(nil)
		},
		"verifAssert": func(c *stubCtx) {
			cond := c.args[0].(*smt.Term)
			msg, _ := concreteStr(c.args[1].(Str))
			c.m.assertCond(cond, msg, c.ins)
			c.ret(nil)
		},
		"verifReach": func(c *stubCtx) {
			tag, _ := concreteStr(c.args[0].(Str))
			c.m.Res.Reached[tag] = true
			c.ret(nil)
		},
		"verifBytes": func(c *stubCtx) {
			n := c.args[0].(*smt.Term)
			if !n.IsConst() {
				panic(unsupported("verifBytes with symbolic length (use verifChoose)"))
			}
			k := int(n.SInt())
			cells := c.m.newCells(k)
			in := Input{Kind: "bytes"}
			for i := 0; i < k; i++ {
				v := c.m.freshVar("in_b", smt.SBV(8))
				cells.E[i] = v
				in.Vars = append(in.Vars, v)
			}
			c.m.inputs = append(c.m.inputs, in)
			c.ret(Slice{C: cells, Len: k, Cap: k})
		},
		"verifString": func(c *stubCtx) {
			n := c.args[0].(*smt.Term)
			if !n.IsConst() {
				panic(unsupported("verifString with symbolic length (use verifChoose)"))
			}
			k := int(n.SInt())
			in := Input{Kind: "bytes"}
			out := make([]*smt.Term, k)
			for i := 0; i < k; i++ {
				v := c.m.freshVar("in_s", smt.SBV(8))
				out[i] = v
				in.Vars = append(in.Vars, v)
			}
			c.m.inputs = append(c.m.inputs, in)
			c.ret(Str{out})
		},
		"verifAbstractBytes": func(c *stubCtx) {
			n := c.args[0].(*smt.Term)
			c.m.nextObj++
			buf := &AbsBuf{Arr: c.m.zeroArr(), ID: c.m.nextObj}
			c.ret(AbsSlice{B: buf, Off: smt.BV(64, 0), Len: n, Cap: n})
		},
		"verifGo": func(c *stubCtx) {
			c.m.spawn(c.t, c.args[0], nil, c.ins)
			c.ret(nil)
		},
		"verifYield": func(c *stubCtx) {
			c.t.yielded = true
			c.ret(nil)
		},
		"verifObserve": func(c *stubCtx) {
			tag, _ := concreteStr(c.args[0].(Str))
			var parts []string
			if len(c.args) > 1 {
				for _, e := range c.m.sliceElems(c.args[1]) {
					parts = append(parts, describe(e))
				}
			}
			c.m.Res.Observations = append(c.m.Res.Observations, tag+":"+strings.Join(parts, ","))
			c.ret(nil)
		},
		"verifThreads": func(c *stubCtx) {
			on := c.args[0].(*smt.Term).IsTrue()
			c.m.threadsOn = on
			c.m.raceDetect = on || c.m.raceDetect
			c.ret(nil)
		},
		"verifTimers": func(c *stubCtx) {
			c.m.timersOn = c.args[0].(*smt.Term).IsTrue()
			c.ret(nil)
		},
		"verifWaitQuiescent": func(c *stubCtx) {
			if w := c.t.Wait; w != nil && w.kind == "quiesce" && w.done {
				c.t.Wait = nil
				c.ret(nil)
				return
			}
			// quiescent already? (no other enabled thread)
			others := false
			for _, t := range c.m.threads {
				if t != c.t && c.m.enabled(t) {
					others = true
				}
			}
			if !others && !c.m.fireNextTimer() {
				for _, t := range c.m.threads {
					if t != c.t {
						c.t.clock = vcJoin(c.t.clock, t.clock)
					}
				}
				c.ret(nil)
				return
			}
			c.m.block(c.t, &waitRec{kind: "quiesce", what: "verifWaitQuiescent", ins: c.ins})
		},
		"verifSettle": func(c *stubCtx) {
			if w := c.t.Wait; w != nil && w.kind == "quiesce" && w.done {
				c.t.Wait = nil
				c.ret(nil)
				return
			}
			others := false
			for _, t := range c.m.threads {
				if t != c.t && c.m.enabled(t) {
					others = true
				}
			}
			if !others {
				c.ret(nil)
				return
			}
			c.m.block(c.t, &waitRec{kind: "quiesce", what: "verifSettle", ins: c.ins})
		},
		"verifBlocked": func(c *stubCtx) {
			n := 0
			for _, t := range c.m.threads {
				if t != c.t && t.State == tBlocked {
					n++
				}
			}
			c.ret(smt.BV(64, uint64(n)))
		},
		"verifHeldLocks": func(c *stubCtx) {
			c.ret(smt.BV(64, uint64(len(c.m.heldLocks()))))
		},
		"verifThorough": func(c *stubCtx) { c.ret(smt.Bool(c.m.Cfg.Tier == "thorough")) },
		"verifIte": func(c *stubCtx) {
			c.ret(smt.Ite(c.args[0].(*smt.Term), c.args[1].(*smt.Term), c.args[2].(*smt.Term)))
		},
		"verifEqBytes": func(c *stubCtx) {
			c.ret(elemsEq(c.m.sliceElems(c.args[0]), c.m.sliceElems(c.args[1])))
		},
		"verifIsNative": func(c *stubCtx) { c.ret(smt.False) },
		"verifMaxAlloc": func(c *stubCtx) {
			r := smt.BV(64, 0)
			for _, a := range c.m.allocs {
				r = smt.Ite(smt.Slt(r, a.size), a.size, r)
			}
			c.ret(r)
		},
		"verifAllocReset": func(c *stubCtx) {
			c.m.allocs = nil
			c.ret(nil)
		},
		"verifNote": func(c *stubCtx) {
			tag, _ := concreteStr(c.args[0].(Str))
			c.m.Res.Assumptions[tag] = true
			c.ret(nil)
		},

		// ---- sync ----
		"(*sync.Mutex).Lock":      func(c *stubCtx) { c.m.muLock(c, true, false) },
		"(*sync.Mutex).Unlock":    func(c *stubCtx) { c.m.muUnlock(c, true, false) },
		"(*sync.RWMutex).Lock":    func(c *stubCtx) { c.m.muLock(c, true, true) },
		"(*sync.RWMutex).Unlock":  func(c *stubCtx) { c.m.muUnlock(c, true, true) },
		"(*sync.RWMutex).RLock":   func(c *stubCtx) { c.m.muLock(c, false, true) },
		"(*sync.RWMutex).RUnlock": func(c *stubCtx) { c.m.muUnlock(c, false, true) },
		"(*sync.Once).Do":         func(c *stubCtx) { c.m.onceDo(c) },
		"(*sync.WaitGroup).Add": func(c *stubCtx) {
			d := c.args[1].(*smt.Term)
			if !d.IsConst() {
				panic(unsupported("symbolic WaitGroup.Add"))
			}
			c.m.wgAdd(c, int(d.SInt()))
		},
		"(*sync.WaitGroup).Done": func(c *stubCtx) { c.m.wgAdd(c, -1) },
		"(*sync.WaitGroup).Wait": func(c *stubCtx) { c.m.wgWait(c) },
		"(*sync/atomic.Value).Load": func(c *stubCtx) {
			s := c.m.syncAt(c.args[0].(Ptr), "atomic")
			c.m.acquire(c.t, s.clock)
			if s.val == nil {
				c.ret(Iface{})
				return
			}
			c.ret(s.val)
		},
		"(*sync/atomic.Value).Store": func(c *stubCtx) {
			s := c.m.syncAt(c.args[0].(Ptr), "atomic")
			s.val = c.args[1]
			c.m.release(c.t, &s.clock)
			c.ret(nil)
		},

		// ---- fmt / errors / logging ----
		"fmt.Errorf": func(c *stubCtx) {
			c.ret(c.m.mkError(c.m.formatArgs(c.args[0], c.args[1])))
		},
		"fmt.Sprintf": func(c *stubCtx) { c.ret(c.m.formatArgs(c.args[0], c.args[1])) },
		"fmt.Sprint": func(c *stubCtx) {
			c.ret(c.m.formatArgs(mkStr("%v"), c.args[0]))
		},
		"fmt.Println":  func(c *stubCtx) { c.ret(Tuple{smt.BV(64, 0), Iface{}}) },
		"fmt.Printf":   func(c *stubCtx) { c.ret(Tuple{smt.BV(64, 0), Iface{}}) },
		"fmt.Print":    func(c *stubCtx) { c.ret(Tuple{smt.BV(64, 0), Iface{}}) },
		"fmt.Fprintf":  func(c *stubCtx) { c.ret(Tuple{smt.BV(64, 0), Iface{}}) },
		"fmt.Fprintln": func(c *stubCtx) { c.ret(Tuple{smt.BV(64, 0), Iface{}}) },
		"fmt.Fprint":   func(c *stubCtx) { c.ret(Tuple{smt.BV(64, 0), Iface{}}) },

		// ---- time ----
		"time.Now": func(c *stubCtx) { c.ret(c.m.timeNow()) },
		"time.Sleep": func(c *stubCtx) {
			d := c.args[0].(*smt.Term)
			if c.m.Cfg.Opts["sleep"] == "gate" && c.t.ID != 0 {
				// gated: a sleeping goroutine continues only when the harness grants a wake-up token (verifWake)
				if c.m.sleepTokens > 0 {
					c.m.sleepTokens--
					c.ret(nil)
					return
				}
				c.m.block(c.t, &waitRec{kind: "sleep", check: func() bool { return c.m.sleepTokens > 0 }, what: "time.Sleep (gated)@" + c.m.pos(c.ins), ins: c.ins})
				return
			}
			if c.m.timersOn {
				// discrete-event clock: the goroutine parks until virtual time reaches now + d (time moves through other
				// goroutines' verifAdvance / sleeps, or jumps to the earliest pending deadline at quiescence)
				if tm := c.t.sleepTimer; tm != nil {
					if tm.Fired {
						c.t.sleepTimer = nil
						c.ret(nil)
						return
					}
				} else {
					tm = c.m.newChan(1, nil)
					tm.Timer = true
					tm.Deadline = smt.Add(c.m.clock(), d)
					c.m.timers = append(c.m.timers, tm)
					c.t.sleepTimer = tm
				}
				tm := c.t.sleepTimer
				c.m.block(c.t, &waitRec{kind: "sleep", timer: tm, check: func() bool { return tm.Fired }, what: "time.Sleep@" + c.m.pos(c.ins), ins: c.ins})
				return
			}
			c.m.advanceClock(d)
			c.ret(nil)
		},
		"verifWake": func(c *stubCtx) {
			n := c.args[0].(*smt.Term)
			c.m.sleepTokens += int(n.SInt())
			c.ret(nil)
		},
		"verifAdvance": func(c *stubCtx) {
			c.m.advanceClock(c.args[0].(*smt.Term))
			c.ret(nil)
		},
		"(*github.com/karagenc/yeast.Yeaster).Yeast": func(c *stubCtx) {
			c.m.yeastN++
			c.ret(mkStr(fmt.Sprintf("y%d", c.m.yeastN)))
		},
		"time.After": func(c *stubCtx) {
			ch := c.m.newChan(1, nil)
			ch.Timer = true
			ch.Deadline = smt.Add(c.m.clock(), c.args[0].(*smt.Term))
			c.m.timers = append(c.m.timers, ch)
			c.ret(ch)
		},
		"time.Since": func(c *stubCtx) {
			c.ret(smt.Sub(c.m.clock(), timeNanos(c.args[0])))
		},
		"(time.Time).Add": func(c *stubCtx) {
			c.ret(mkTime(smt.Add(timeNanos(c.args[0]), c.args[1].(*smt.Term))))
		},
		"(time.Time).Sub": func(c *stubCtx) {
			c.ret(smt.Sub(timeNanos(c.args[0]), timeNanos(c.args[1])))
		},
		"(time.Time).Before": func(c *stubCtx) {
			c.ret(smt.Slt(timeNanos(c.args[0]), timeNanos(c.args[1])))
		},
		"(time.Time).After": func(c *stubCtx) {
			c.ret(smt.Slt(timeNanos(c.args[1]), timeNanos(c.args[0])))
		},
		"(time.Time).IsZero": func(c *stubCtx) {
			c.ret(smt.Eq(timeNanos(c.args[0]), smt.BV(64, 0)))
		},
		"(time.Time).UnixNano": func(c *stubCtx) { c.ret(timeNanos(c.args[0])) },

		// ---- bytes / strings helpers backed by assembly ----
		"internal/bytealg.IndexByte": func(c *stubCtx) {
			c.ret(c.m.indexByte(c.m.sliceElems(c.args[0]), c.args[1].(*smt.Term)))
		},
		"internal/bytealg.IndexByteString": func(c *stubCtx) {
			c.ret(c.m.indexByte(c.m.sliceElems(c.args[0]), c.args[1].(*smt.Term)))
		},
		"bytes.IndexByte": func(c *stubCtx) {
			c.ret(c.m.indexByte(c.m.sliceElems(c.args[0]), c.args[1].(*smt.Term)))
		},
		"strings.IndexByte": func(c *stubCtx) {
			c.ret(c.m.indexByte(c.m.sliceElems(c.args[0]), c.args[1].(*smt.Term)))
		},
		"internal/bytealg.Equal": func(c *stubCtx) {
			a, b := c.m.sliceElems(c.args[0]), c.m.sliceElems(c.args[1])
			c.ret(elemsEq(a, b))
		},
		"bytes.Equal": func(c *stubCtx) {
			a, b := c.m.sliceElems(c.args[0]), c.m.sliceElems(c.args[1])
			c.ret(elemsEq(a, b))
		},
		"internal/bytealg.MakeNoZero": func(c *stubCtx) {
			n := c.args[0].(*smt.Term)
			if !n.IsConst() {
				panic(unsupported("MakeNoZero symbolic"))
			}
			k := int(n.SInt())
			cells := c.m.newCells(k)
			for i := range cells.E {
				cells.E[i] = smt.BV(8, 0)
			}
			c.ret(Slice{C: cells, Len: k, Cap: k})
		},
		"strconv.Itoa": func(c *stubCtx) {
			v := c.args[0].(*smt.Term)
			if v.IsConst() {
				c.ret(mkStr(strconv.FormatInt(v.SInt(), 10)))
				return
			}
			c.m.callReal(c)
		},
		"strconv.FormatUint": func(c *stubCtx) {
			v, b := c.args[0].(*smt.Term), c.args[1].(*smt.Term)
			if v.IsConst() && b.IsConst() {
				c.ret(mkStr(strconv.FormatUint(v.U, int(b.SInt()))))
				return
			}
			c.m.callReal(c)
		},
		"strconv.FormatInt": func(c *stubCtx) {
			v, b := c.args[0].(*smt.Term), c.args[1].(*smt.Term)
			if v.IsConst() && b.IsConst() {
				c.ret(mkStr(strconv.FormatInt(v.SInt(), int(b.SInt()))))
				return
			}
			c.m.callReal(c)
		},
		"io.ReadAll": func(c *stubCtx) {
			if c.m.Cfg.Opts["readall"] != "summary" {
				c.m.callReal(c)
				return
			}
			c.m.readAllSummary(c)
		},
		"math.Pow": func(c *stubCtx) {
			x, y := c.args[0].(*smt.Term), c.args[1].(*smt.Term)
			if x.IsConst() && y.IsConst() {
				c.ret(smt.F64(math.Pow(math.Float64frombits(x.U), math.Float64frombits(y.U))))
				return
			}
			panic(unsupported("math.Pow with symbolic operands"))
		},
		"math.Floor": func(c *stubCtx) { c.ret(smt.FFloor(c.args[0].(*smt.Term))) },
		"math.Trunc": func(c *stubCtx) { c.ret(smt.FTrunc(c.args[0].(*smt.Term))) },
		"math.Min": func(c *stubCtx) {
			x, y := c.args[0].(*smt.Term), c.args[1].(*smt.Term)
			nan := smt.Or(smt.FIsNaN(x), smt.FIsNaN(y))
			c.ret(smt.Ite(nan, smt.F64(math.NaN()), smt.Ite(smt.FCmp("fp.lt", x, y), x, y)))
		},
		"math.Max": func(c *stubCtx) {
			x, y := c.args[0].(*smt.Term), c.args[1].(*smt.Term)
			nan := smt.Or(smt.FIsNaN(x), smt.FIsNaN(y))
			c.ret(smt.Ite(nan, smt.F64(math.NaN()), smt.Ite(smt.FCmp("fp.lt", x, y), y, x)))
		},
		"math.IsNaN": func(c *stubCtx) { c.ret(smt.FIsNaN(c.args[0].(*smt.Term))) },
		"math/rand.Float64": func(c *stubCtx) {
			// documented contract: a pseudo-random number in the half-open interval [0.0,1.0); not a replay input
			r := c.m.freshVar("rand_f64", smt.SFP(64))
			c.m.assume(smt.And(smt.FCmp("fp.geq", r, smt.F64(0)), smt.FCmp("fp.lt", r, smt.F64(1))))
			c.ret(r)
		},
		"crypto/rand.Read": func(c *stubCtx) {
			sl := c.args[0].(Slice)
			if c.m.Cfg.Opts["rand"] == "concrete" {
				// distinct concrete bytes per call (keeps generated ids concrete in harnesses whose subject is not the id generator)
				c.m.randN++
				for k := 0; k < sl.Len; k++ {
					sl.C.E[sl.Off+k] = smt.BV(8, uint64((c.m.randN*37+k*11)&0xff))
				}
			} else {
				for k := 0; k < sl.Len; k++ {
					sl.C.E[sl.Off+k] = c.m.freshVar("rand_b", smt.SBV(8))
				}
			}
			c.ret(Tuple{smt.BV(64, uint64(sl.Len)), Iface{}})
		},
		"encoding/json.Unmarshal": func(c *stubCtx) {
			if c.m.jsonFlatObject(c) {
				c.m.Res.Assumptions["encoding/json.Unmarshal of a flat object of string members ({\"k\":\"v\",...}, structure concrete, values possibly symbolic and assumed free of quotes and backslashes) into a struct: string fields set by json tag / field name; everything else: succeeds and leaves the target at its current value"] = true
			} else {
				c.m.Res.Assumptions["encoding/json.Unmarshal stubbed: succeeds and leaves the target at its current value"] = true
			}
			c.ret(Iface{})
		},
		"encoding/json.Marshal": func(c *stubCtx) {
			c.m.Res.Assumptions["encoding/json.Marshal stubbed: returns the opaque text {}"] = true
			c.m.lastMarshal = c.args[0]
			s := mkStr("{}")
			cells := c.m.newCells(2)
			cells.E[0], cells.E[1] = s.B[0], s.B[1]
			c.ret(Tuple{Slice{C: cells, Len: 2, Cap: 2}, Iface{}})
		},
		"errors.As": func(c *stubCtx) {
			err := c.args[0].(Iface)
			tgt := c.args[1].(Iface)
			pt, ok := tgt.T.Underlying().(*types.Pointer)
			if !ok || err.T == nil {
				c.ret(smt.False)
				return
			}
			p := tgt.V.(Ptr)
			if types.Identical(err.T, pt.Elem()) {
				c.m.storeCell(p.C, p.I, err.V)
				c.ret(smt.True)
				return
			}
			if it, isI := pt.Elem().Underlying().(*types.Interface); isI && types.Implements(err.T, it) {
				c.m.storeCell(p.C, p.I, err)
				c.ret(smt.True)
				return
			}
			c.m.Res.Assumptions["errors.As: wrapped error chains are not followed"] = true
			c.ret(smt.False)
		},
		"(*net/http.Request).UserAgent": func(c *stubCtx) { c.ret(mkStr("")) },
		"(net/http.Header).Set":         func(c *stubCtx) { c.ret(nil) },
		"(net/http.Header).Get":         func(c *stubCtx) { c.ret(mkStr("")) },
		"(net/http.Header).Add":         func(c *stubCtx) { c.ret(nil) },
		"(net/http.Header).Del":         func(c *stubCtx) { c.ret(nil) },
		"verifLastMarshal": func(c *stubCtx) {
			if c.m.lastMarshal == nil {
				c.ret(Iface{})
				return
			}
			c.ret(c.m.lastMarshal)
		},
		// ---- nhooyr.io/websocket: connections are opaque objects with one abstract field, the message read limit ----
		"nhooyr.io/websocket.Accept": func(c *stubCtx) { c.ret(Tuple{c.m.newWSConn(), Iface{}}) },
		"nhooyr.io/websocket.Dial":   func(c *stubCtx) { c.ret(Tuple{c.m.newWSConn(), Ptr{}, Iface{}}) },
		"(*nhooyr.io/websocket.Conn).SetReadLimit": func(c *stubCtx) {
			w := wsConnOf(c.args[0])
			if w == nil {
				c.m.goPanic(c.t, "runtime error: invalid memory address or nil pointer dereference", c.ins)
				return
			}
			// library doc: SetReadLimit sets the max number of bytes to read for a single message; -1 disables the limit
			w.limit = c.args[1].(*smt.Term)
			c.ret(nil)
		},
		"(*nhooyr.io/websocket.Conn).Reader": func(c *stubCtx) {
			c.ret(Tuple{smt.BV(64, 0), Iface{}, c.m.mkError(mkStr("verif: no message (websocket reads are not modelled)"))})
		},
		"(*nhooyr.io/websocket.Conn).Close": func(c *stubCtx) { c.ret(Iface{}) },
		"nhooyr.io/websocket.CloseStatus":   func(c *stubCtx) { c.ret(smt.BV(64, ^uint64(0))) },
		"context.Background":                func(c *stubCtx) { c.ret(Iface{T: c.m.P.errType, V: Ptr{}}) },
		"(*net/http.Request).Context":       func(c *stubCtx) { c.ret(Iface{T: c.m.P.errType, V: Ptr{}}) },
		"(*net/url.URL).String":             func(c *stubCtx) { c.ret(mkStr("ws://verif.invalid/")) },
		"internal/abi.NoEscape":             func(c *stubCtx) { c.ret(c.args[0]) },
		// the network dial of the client is cut: it fails for the first n calls the harness planned, then hands out the
		// harness's socket (verifDialPlan)
		"github.com/karagenc/socket.io-go/engine.io.Dial": func(c *stubCtx) {
			c.m.dialCalls++
			if c.m.dialCalls <= c.m.dialFails || c.m.dialSock == nil {
				c.ret(Tuple{Iface{}, c.m.mkError(mkStr("verif: dial refused"))})
				return
			}
			c.ret(Tuple{c.m.dialSock, Iface{}})
		},
		"verifDialPlan": func(c *stubCtx) {
			n := c.args[0].(*smt.Term)
			if !n.IsConst() {
				panic(unsupported("verifDialPlan with symbolic count"))
			}
			c.m.dialFails = int(n.SInt())
			c.m.dialSock = c.args[1]
			c.ret(nil)
		},
		"verifDialCalls": func(c *stubCtx) { c.ret(smt.BV(64, uint64(c.m.dialCalls))) },
		"verifWSReadLimit": func(c *stubCtx) {
			w := wsConnOf(c.args[0])
			if w == nil {
				panic(unsupported("verifWSReadLimit on a value that is not a stubbed websocket connection"))
			}
			c.ret(w.limit)
		},
		"errors.Is": func(c *stubCtx) {
			// identity comparison only (wrapped chains built by the fmt.Errorf stub are opaque)
			c.ret(c.m.equal(c.args[0], c.args[1], c.ins))
		},
	}
	for k, v := range base {
		stubTable[k] = v
	}
}

// callReal executes the stubbed function from its SSA body after all (used by fast-path stubs).
func (m *Machine) callReal(c *stubCtx) {
	callee := c.fn
	if callee.Blocks == nil {
		m.P.build(callee.Pkg)
	}
	if callee.Blocks == nil {
		panic(unsupported("no body for " + callee.String()))
	}
	nf := m.newFrame(callee, c.args, nil)
	nf.deferOwner = c.deferOwner
	nf.onReturn = func(res Value) { c.ret(res) }
	c.t.Stack = append(c.t.Stack, nf)
}

func (m *Machine) newInput(kind string, s smt.Sort) *smt.Term {
	v := m.freshVar("in_"+kind, s)
	m.inputs = append(m.inputs, Input{Kind: kind, Var: v})
	return v
}

func elemsEq(a, b []Value) *smt.Term {
	if len(a) != len(b) {
		return smt.False
	}
	r := smt.True
	for i := range a {
		r = smt.And(r, smt.Eq(a[i].(*smt.Term), b[i].(*smt.Term)))
	}
	return r
}

// indexByte returns the index of the first occurrence of c (ite chain, no forking).
func (m *Machine) indexByte(elems []Value, c *smt.Term) *smt.Term {
	r := smt.BV(64, ^uint64(0))
	for i := len(elems) - 1; i >= 0; i-- {
		r = smt.Ite(smt.Eq(elems[i].(*smt.Term), c), smt.BV(64, uint64(i)), r)
	}
	return r
}

// mkError builds a *errors.errorString value.
func (m *Machine) mkError(msg Value) Value {
	s, _ := msg.(Str)
	box := m.newCells(1)
	st := m.newCells(1)
	st.E[0] = s
	box.E[0] = st
	return Iface{T: m.P.errType, V: Ptr{box, 0}}
}

// formatArgs renders fmt verbs natively when every operand is concrete; otherwise returns the bare format string.
func (m *Machine) formatArgs(format Value, args Value) Value {
	fs, ok := concreteStr(format.(Str))
	if !ok {
		m.Res.Assumptions["fmt: symbolic format string replaced by placeholder"] = true
		return mkStr("<fmt>")
	}
	var goArgs []interface{}
	allOK := true
	if args != nil {
		for _, e := range m.sliceElems(args) {
			g, ok := m.toGo(e)
			if !ok {
				allOK = false
				break
			}
			goArgs = append(goArgs, g)
		}
	}
	if !allOK {
		m.Res.Assumptions["fmt: formatting with symbolic/opaque operands not executed (format string returned verbatim)"] = true
		return mkStr(fs)
	}
	return mkStr(fmt.Sprintf(fs, goArgs...))
}

// toGo converts a concrete executor value boxed in an interface to a native Go value for formatting.
func (m *Machine) toGo(v Value) (interface{}, bool) {
	ifc, ok := v.(Iface)
	if !ok {
		return nil, false
	}
	if ifc.T == nil {
		return nil, true
	}
	switch x := ifc.V.(type) {
	case *smt.Term:
		if !x.IsConst() {
			return nil, false
		}
		if x.Sort.K == smt.KBool {
			return x.U == 1, true
		}
		if x.Sort.K == smt.KBV {
			_, signed, _ := bvWidth(ifc.T)
			if signed {
				return x.SInt(), true
			}
			return x.U, true
		}
		return nil, false
	case Str:
		s, ok := concreteStr(x)
		return s, ok
	case Ptr:
		// error values built by mkError / errors.New
		if m.P.errType != nil && types.Identical(ifc.T, m.P.errType) && x.C != nil {
			if st, ok := x.C.E[x.I].(*Cells); ok && len(st.E) == 1 {
				if s, ok := st.E[0].(Str); ok {
					if cs, ok := concreteStr(s); ok {
						return fmt.Errorf("%s", cs), true
					}
				}
			}
		}
	}
	return nil, false
}

// ---- virtual time ----

func mkTime(n *smt.Term) Value { return &Opaque{Tag: "time.Time", X: n} }

func timeNanos(v Value) *smt.Term {
	switch x := v.(type) {
	case *Opaque:
		if n, ok := x.X.(*smt.Term); ok {
			return n
		}
	case *Cells:
		// zero time.Time struct
		return smt.BV(64, 0)
	}
	return smt.BV(64, 0)
}

func (m *Machine) clock() *smt.Term {
	if m.now == nil {
		m.now = smt.BV(64, 1<<40)
	}
	return m.now
}

func (m *Machine) timeNow() Value { return mkTime(m.clock()) }

func (m *Machine) advanceClock(d *smt.Term) {
	m.now = smt.Add(m.clock(), d)
	m.checkTimers()
}

// callMethod invokes method name on interface value recv without advancing the caller; k receives the result.
func (m *Machine) callMethod(c *stubCtx, recv Iface, name string, args []Value, k func(res Value)) {
	if recv.T == nil {
		m.goPanic(c.t, "runtime error: invalid memory address or nil pointer dereference (method call on nil interface)", c.ins)
		return
	}
	ms := m.P.Prog.MethodSets.MethodSet(recv.T)
	var fn *ssa.Function
	for i := 0; i < ms.Len(); i++ {
		if ms.At(i).Obj().Name() == name {
			m.P.mu.Lock()
			fn = m.P.Prog.MethodValue(ms.At(i))
			m.P.mu.Unlock()
		}
	}
	if fn == nil {
		panic(unsupported("method " + name + " not found on " + recv.T.String()))
	}
	m.noAdvanceNext = true
	m.invoke(c.t, &Closure{Fn: fn}, append([]Value{recv.V}, args...), c.ins, k, c.deferOwner)
}

// readAllSummary models io.ReadAll over a reader that hands out everything it has when given room:
// Read is called with an (abstract) buffer of practically unlimited size until it reports an error; the result is an
// abstract slice whose length is the sum of the counts returned. The chunking of the real ReadAll (512 bytes, growing)
// is not modelled; the length and error are.
func (m *Machine) readAllSummary(c *stubCtx) {
	m.Res.Assumptions["io.ReadAll summarised: one Read with unlimited room per round, at most 3 rounds; chunk sizes not modelled"] = true
	r := c.args[0].(Iface)
	m.nextObj++
	buf := &AbsBuf{Arr: m.zeroArr(), ID: m.nextObj}
	big := smt.BV(64, 1<<62)
	total := smt.BV(64, 0)
	rounds := 0
	var round func()
	round = func() {
		rounds++
		if rounds > 3 {
			m.end(endUnwind, "io.ReadAll summary: more than 3 rounds")
		}
		p := AbsSlice{B: buf, Off: total, Len: smt.Sub(big, total), Cap: smt.Sub(big, total)}
		m.callMethod(c, r, "Read", []Value{p}, func(res Value) {
			tp := res.(Tuple)
			n := tp[0].(*smt.Term)
			err := tp[1].(Iface)
			total = smt.Add(total, n)
			if err.T == nil {
				round()
				return
			}
			out := AbsSlice{B: buf, Off: smt.BV(64, 0), Len: total, Cap: total}
			m.allocs = append(m.allocs, allocRec{size: total, where: "io.ReadAll"})
			if m.isEOF(err) {
				c.ret(Tuple{out, Iface{}})
				return
			}
			c.ret(Tuple{out, err})
		})
	}
	round()
}

// isEOF reports whether err is io.EOF (pointer identity with the io.EOF global).
func (m *Machine) isEOF(err Iface) bool {
	iop := m.P.Prog.ImportedPackage("io")
	if iop == nil {
		return false
	}
	g, ok := iop.Members["EOF"].(*ssa.Global)
	if !ok {
		return false
	}
	p := m.globalPtr(g)
	eof, ok := p.C.E[p.I].(Iface)
	if !ok {
		return false
	}
	return m.equal(eof, err, nil).IsTrue()
}

type wsConn struct{ limit *smt.Term }

// newWSConn creates a stubbed *websocket.Conn whose read limit starts at the library's default, read from the module's
// own source (const defaultReadLimit) on every run.
func (m *Machine) newWSConn() Value {
	def := int64(32768)
	if wp := m.P.Prog.ImportedPackage("nhooyr.io/websocket"); wp != nil {
		if nc, ok := wp.Members["defaultReadLimit"].(*ssa.NamedConst); ok {
			if v, ok := constant.Int64Val(nc.Value.Value); ok {
				def = v
			}
		}
	}
	m.Res.Assumptions[fmt.Sprintf("nhooyr.io/websocket: a new Conn has a message read limit of %d bytes (const defaultReadLimit read from the module source); SetReadLimit(n) sets it, n<0 disables it", def)] = true
	box := m.newCells(1)
	box.E[0] = &Opaque{Tag: "wsconn", X: &wsConn{limit: smt.BV(64, uint64(def))}}
	return Ptr{box, 0}
}

func wsConnOf(v Value) *wsConn {
	if ifc, isI := v.(Iface); isI {
		v = ifc.V
	}
	p, ok := v.(Ptr)
	if !ok || p.C == nil {
		return nil
	}
	o, ok := p.C.E[p.I].(*Opaque)
	if !ok || o.Tag != "wsconn" {
		return nil
	}
	return o.X.(*wsConn)
}

// jsonFlatObject is the one piece of encoding/json.Unmarshal the executor interprets: data of the form
// {"k1":"v1","k2":"v2"} (structural bytes concrete; value bytes may be symbolic) into a pointer to a struct whose string
// fields are matched by json tag or field name. Reports whether it applied.
func (m *Machine) jsonFlatObject(c *stubCtx) bool {
	tgt, ok := c.args[1].(Iface)
	if !ok || tgt.T == nil {
		return false
	}
	pt, ok := tgt.T.Underlying().(*types.Pointer)
	if !ok {
		return false
	}
	st, ok := pt.Elem().Underlying().(*types.Struct)
	if !ok {
		return false
	}
	p, ok := tgt.V.(Ptr)
	if !ok || p.C == nil {
		return false
	}
	sc, ok := p.C.E[p.I].(*Cells)
	if !ok {
		return false
	}
	sl, ok := c.args[0].(Slice)
	if !ok || sl.Nil {
		return false
	}
	data := make([]*smt.Term, sl.Len)
	for i := range data {
		t, isT := sl.C.E[sl.Off+i].(*smt.Term)
		if !isT {
			return false
		}
		data[i] = t
	}
	is := func(i int, b byte) bool { return i < len(data) && data[i].IsConst() && byte(data[i].SInt()) == b }
	type member struct {
		key string
		val []*smt.Term
	}
	var members []member
	i := 0
	if !is(i, '{') {
		return false
	}
	i++
	for !is(i, '}') {
		if len(members) > 0 {
			if !is(i, ',') {
				return false
			}
			i++
		}
		if !is(i, '"') {
			return false
		}
		i++
		var key []byte
		for i < len(data) && !is(i, '"') {
			if !data[i].IsConst() {
				return false
			}
			key = append(key, byte(data[i].SInt()))
			i++
		}
		if !is(i, '"') || !is(i+1, ':') || !is(i+2, '"') {
			return false
		}
		i += 3
		var val []*smt.Term
		for i < len(data) && !is(i, '"') {
			val = append(val, data[i])
			i++
		}
		if !is(i, '"') {
			return false
		}
		i++
		members = append(members, member{string(key), val})
	}
	if i != len(data)-1 {
		return false
	}
	for _, mb := range members {
		for f := 0; f < st.NumFields(); f++ {
			fld := st.Field(f)
			name := fld.Name()
			if tag := reflect.StructTag(st.Tag(f)).Get("json"); tag != "" {
				if k := strings.Index(tag, ","); k >= 0 {
					tag = tag[:k]
				}
				if tag != "" {
					name = tag
				}
			}
			if name == mb.key && isString(fld.Type()) {
				m.storeCell(sc, f, Str{append([]*smt.Term(nil), mb.val...)})
			}
		}
	}
	return true
}
