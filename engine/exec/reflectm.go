package exec

import (
	"fmt"
	"go/types"
	"reflect"

	"golang.org/x/tools/go/ssa"

	"verif/engine/smt"
)

// Light model of package reflect over the executor's own values and go/types (DESIGN.md section 3).
// reflect.Value  = *Opaque{Tag:"reflect.Value", X:*RVal}; the zero reflect.Value is the zero struct (*Cells).
// reflect.Type   = Iface{T:*reflect.rtype, V:*Opaque{Tag:"rtype", X:types.Type}} (canonical per type).

type RVal struct {
	T       types.Type
	V       Value
	Addr    Ptr
	HasAddr bool
	RO      bool // obtained through an unexported struct field: neither settable nor interfaceable
}

func (m *Machine) rtypeMarker() types.Type {
	if m.P.rtypeT != nil {
		return m.P.rtypeT
	}
	rp := m.P.Prog.ImportedPackage("reflect")
	if rp == nil {
		panic(unsupported("package reflect not loaded"))
	}
	t := rp.Type("rtype")
	if t == nil {
		panic(unsupported("reflect.rtype not found"))
	}
	m.P.rtypeT = types.NewPointer(t.Type())
	return m.P.rtypeT
}

func (m *Machine) rtype(t types.Type) Value {
	if t == nil {
		return Iface{}
	}
	if m.rtypes == nil {
		m.rtypes = map[string]*Opaque{}
	}
	key := types.TypeString(t, nil)
	o := m.rtypes[key]
	if o == nil {
		o = &Opaque{Tag: "rtype", X: t}
		m.rtypes[key] = o
	}
	return Iface{T: m.rtypeMarker(), V: o}
}

func rtypeOf(v Value) (types.Type, bool) {
	ifc, ok := v.(Iface)
	if !ok || ifc.T == nil {
		return nil, false
	}
	o, ok := ifc.V.(*Opaque)
	if !ok || o.Tag != "rtype" {
		return nil, false
	}
	return o.X.(types.Type), true
}

func mkRV(r *RVal) Value { return &Opaque{Tag: "reflect.Value", X: r} }

func rvOf(v Value) *RVal {
	if o, ok := v.(*Opaque); ok && o.Tag == "reflect.Value" {
		return o.X.(*RVal)
	}
	return nil // invalid (zero) Value
}

func (m *Machine) rvGet(r *RVal) Value {
	if r.HasAddr {
		return m.copyVal(r.Addr.C.E[r.Addr.I])
	}
	return r.V
}

func kindOf(t types.Type) reflect.Kind {
	switch u := t.Underlying().(type) {
	case *types.Basic:
		switch u.Kind() {
		case types.Bool:
			return reflect.Bool
		case types.Int:
			return reflect.Int
		case types.Int8:
			return reflect.Int8
		case types.Int16:
			return reflect.Int16
		case types.Int32:
			return reflect.Int32
		case types.Int64:
			return reflect.Int64
		case types.Uint:
			return reflect.Uint
		case types.Uint8:
			return reflect.Uint8
		case types.Uint16:
			return reflect.Uint16
		case types.Uint32:
			return reflect.Uint32
		case types.Uint64:
			return reflect.Uint64
		case types.Uintptr:
			return reflect.Uintptr
		case types.Float32:
			return reflect.Float32
		case types.Float64:
			return reflect.Float64
		case types.String:
			return reflect.String
		case types.UnsafePointer:
			return reflect.UnsafePointer
		}
	case *types.Pointer:
		return reflect.Ptr
	case *types.Slice:
		return reflect.Slice
	case *types.Array:
		return reflect.Array
	case *types.Map:
		return reflect.Map
	case *types.Chan:
		return reflect.Chan
	case *types.Signature:
		return reflect.Func
	case *types.Interface:
		return reflect.Interface
	case *types.Struct:
		return reflect.Struct
	}
	return reflect.Invalid
}

func kindTerm(k reflect.Kind) *smt.Term { return smt.BV(64, uint64(k)) }

// funcPointer models reflect.Value.Pointer for functions: the code pointer (shared by all closures of one function literal).
func (m *Machine) funcPointer(cl *Closure) uint64 {
	if cl == nil {
		return 0
	}
	if m.funcIDs == nil {
		m.funcIDs = map[*ssa.Function]int{}
	}
	id, ok := m.funcIDs[cl.Fn]
	if !ok {
		id = len(m.funcIDs) + 1
		m.funcIDs[cl.Fn] = id
	}
	return 0x400000 + uint64(id)*64
}

func (m *Machine) reflectPanic(c *stubCtx, msg string) {
	m.goPanicVal(c.t, Iface{T: types.Typ[types.String], V: mkStr(msg)}, msg, c.ins)
}

func init() {
	add := func(name string, f stubFn) { stubTable[name] = f }
	add("reflect.ValueOf", func(c *stubCtx) {
		ifc := c.args[0].(Iface)
		if ifc.T == nil {
			c.ret(c.m.zeroRV())
			return
		}
		c.ret(mkRV(&RVal{T: ifc.T, V: ifc.V}))
	})
	add("reflect.TypeOf", func(c *stubCtx) {
		ifc := c.args[0].(Iface)
		c.ret(c.m.rtype(ifc.T))
	})
	add("reflect.New", func(c *stubCtx) {
		t, ok := rtypeOf(c.args[0])
		if !ok {
			c.m.reflectPanic(c, "reflect: New(nil)")
			return
		}
		box := c.m.newCells(1)
		box.E[0] = c.m.zero(t)
		c.ret(mkRV(&RVal{T: types.NewPointer(t), V: Ptr{box, 0}}))
	})
	add("reflect.Zero", func(c *stubCtx) {
		t, ok := rtypeOf(c.args[0])
		if !ok {
			c.m.reflectPanic(c, "reflect: Zero(nil)")
			return
		}
		c.ret(mkRV(&RVal{T: t, V: c.m.zero(t)}))
	})
	add("(reflect.Value).Kind", func(c *stubCtx) {
		r := rvOf(c.args[0])
		if r == nil {
			c.ret(kindTerm(reflect.Invalid))
			return
		}
		c.ret(kindTerm(kindOf(r.T)))
	})
	add("(reflect.Value).IsValid", func(c *stubCtx) { c.ret(smt.Bool(rvOf(c.args[0]) != nil)) })
	add("(reflect.Value).CanInterface", func(c *stubCtx) {
		if rvOf(c.args[0]) == nil {
			c.m.reflectPanic(c, "reflect: call of reflect.Value.CanInterface on zero Value")
			return
		}
		c.ret(smt.Bool(!rvOf(c.args[0]).RO))
	})
	add("(reflect.Value).CanSet", func(c *stubCtx) {
		r := rvOf(c.args[0])
		c.ret(smt.Bool(r != nil && r.HasAddr && !r.RO))
	})
	add("(reflect.Value).CanAddr", func(c *stubCtx) {
		r := rvOf(c.args[0])
		c.ret(smt.Bool(r != nil && r.HasAddr))
	})
	add("(reflect.Value).NumField", func(c *stubCtx) {
		r := rvOf(c.args[0])
		if r == nil {
			c.m.reflectPanic(c, "reflect: call of reflect.Value.NumField on zero Value")
			return
		}
		st, ok := r.T.Underlying().(*types.Struct)
		if !ok {
			c.m.reflectPanic(c, "reflect: call of reflect.Value.NumField on "+kindOf(r.T).String()+" Value")
			return
		}
		c.ret(smt.BV(64, uint64(st.NumFields())))
	})
	add("(reflect.Value).Field", func(c *stubCtx) {
		r := rvOf(c.args[0])
		if r == nil {
			c.m.reflectPanic(c, "reflect: call of reflect.Value.Field on zero Value")
			return
		}
		st, ok := r.T.Underlying().(*types.Struct)
		if !ok {
			c.m.reflectPanic(c, "reflect: call of reflect.Value.Field on "+kindOf(r.T).String()+" Value")
			return
		}
		it := c.args[1].(*smt.Term)
		if !it.IsConst() {
			panic(unsupported("reflect.Value.Field with symbolic index"))
		}
		i := int(it.SInt())
		if i < 0 || i >= st.NumFields() {
			c.m.reflectPanic(c, "reflect: Field index out of range")
			return
		}
		fld := st.Field(i)
		ro := r.RO || !fld.Exported()
		if r.HasAddr {
			sc, isC := r.Addr.C.E[r.Addr.I].(*Cells)
			if !isC {
				panic(unsupported("reflect.Value.Field on non-struct cell"))
			}
			c.ret(mkRV(&RVal{T: fld.Type(), Addr: Ptr{sc, i}, HasAddr: true, RO: ro}))
			return
		}
		sc, isC := r.V.(*Cells)
		if !isC {
			panic(unsupported("reflect.Value.Field on non-struct value"))
		}
		c.ret(mkRV(&RVal{T: fld.Type(), V: c.m.copyVal(sc.E[i]), RO: ro}))
	})
	add("(reflect.Value).Index", func(c *stubCtx) {
		r := rvOf(c.args[0])
		if r == nil {
			c.m.reflectPanic(c, "reflect: call of reflect.Value.Index on zero Value")
			return
		}
		it := c.args[1].(*smt.Term)
		if !it.IsConst() {
			panic(unsupported("reflect.Value.Index with symbolic index"))
		}
		i := int(it.SInt())
		switch u := r.T.Underlying().(type) {
		case *types.Slice:
			sl, isS := c.m.rvGet(r).(Slice)
			if !isS {
				panic(unsupported("reflect.Value.Index on an abstract slice"))
			}
			if i < 0 || i >= sl.Len {
				c.m.reflectPanic(c, "reflect: slice index out of range")
				return
			}
			// elements of a slice are always addressable
			c.ret(mkRV(&RVal{T: u.Elem(), Addr: Ptr{sl.C, sl.Off + i}, HasAddr: true, RO: r.RO}))
		case *types.Array:
			if i < 0 || i >= int(u.Len()) {
				c.m.reflectPanic(c, "reflect: array index out of range")
				return
			}
			if r.HasAddr {
				ac := r.Addr.C.E[r.Addr.I].(*Cells)
				c.ret(mkRV(&RVal{T: u.Elem(), Addr: Ptr{ac, i}, HasAddr: true, RO: r.RO}))
				return
			}
			c.ret(mkRV(&RVal{T: u.Elem(), V: c.m.copyVal(r.V.(*Cells).E[i]), RO: r.RO}))
		default:
			panic(unsupported("reflect.Value.Index on " + kindOf(r.T).String()))
		}
	})
	add("(reflect.Value).SetBytes", func(c *stubCtx) {
		r := rvOf(c.args[0])
		if r == nil {
			c.m.reflectPanic(c, "reflect: call of reflect.Value.SetBytes on zero Value")
			return
		}
		if !r.HasAddr || r.RO {
			c.m.reflectPanic(c, "reflect: reflect.Value.SetBytes using unaddressable value")
			return
		}
		sl, ok := r.T.Underlying().(*types.Slice)
		if !ok || kindOf(sl.Elem()) != reflect.Uint8 {
			c.m.reflectPanic(c, "reflect.Value.SetBytes of non-byte slice")
			return
		}
		c.m.storeCell(r.Addr.C, r.Addr.I, c.args[1])
		c.ret(nil)
	})
	add("reflect.MakeSlice", func(c *stubCtx) {
		t, ok := rtypeOf(c.args[0])
		if !ok {
			c.m.reflectPanic(c, "reflect.MakeSlice of nil type")
			return
		}
		st, isS := t.Underlying().(*types.Slice)
		if !isS {
			c.m.reflectPanic(c, "reflect.MakeSlice of non-slice type")
			return
		}
		lt, ct := c.args[1].(*smt.Term), c.args[2].(*smt.Term)
		if !lt.IsConst() || !ct.IsConst() {
			panic(unsupported("reflect.MakeSlice with symbolic size"))
		}
		n, cp := int(lt.SInt()), int(ct.SInt())
		if n < 0 || cp < n {
			c.m.reflectPanic(c, "reflect.MakeSlice: negative len or len > cap")
			return
		}
		if cp > 1<<16 {
			panic(unsupported("reflect.MakeSlice too large"))
		}
		cells := c.m.newCells(cp)
		for i := range cells.E {
			cells.E[i] = c.m.zero(st.Elem())
		}
		c.ret(mkRV(&RVal{T: t, V: Slice{C: cells, Len: n, Cap: cp}}))
	})
	add("(reflect.Value).Type", func(c *stubCtx) {
		r := rvOf(c.args[0])
		if r == nil {
			c.m.reflectPanic(c, "reflect: call of reflect.Value.Type on zero Value")
			return
		}
		c.ret(c.m.rtype(r.T))
	})
	add("(reflect.Value).Elem", func(c *stubCtx) {
		r := rvOf(c.args[0])
		if r == nil {
			c.m.reflectPanic(c, "reflect: call of reflect.Value.Elem on zero Value")
			return
		}
		v := c.m.rvGet(r)
		switch u := r.T.Underlying().(type) {
		case *types.Pointer:
			p := v.(Ptr)
			if p.C == nil {
				c.ret(c.m.zeroRV())
				return
			}
			c.ret(mkRV(&RVal{T: u.Elem(), Addr: p, HasAddr: true, RO: r.RO}))
		case *types.Interface:
			ifc := v.(Iface)
			if ifc.T == nil {
				c.ret(c.m.zeroRV())
				return
			}
			c.ret(mkRV(&RVal{T: ifc.T, V: ifc.V, RO: r.RO}))
		default:
			c.m.reflectPanic(c, "reflect: call of reflect.Value.Elem on "+kindOf(r.T).String()+" Value")
		}
	})
	add("(reflect.Value).Interface", func(c *stubCtx) {
		r := rvOf(c.args[0])
		if r == nil {
			c.m.reflectPanic(c, "reflect: call of reflect.Value.Interface on zero Value")
			return
		}
		if r.RO {
			c.m.reflectPanic(c, "reflect.Value.Interface: cannot return value obtained from unexported field or method")
			return
		}
		v := c.m.rvGet(r)
		if _, isI := r.T.Underlying().(*types.Interface); isI {
			c.ret(v)
			return
		}
		c.ret(Iface{T: r.T, V: v})
	})
	add("(reflect.Value).IsNil", func(c *stubCtx) {
		r := rvOf(c.args[0])
		if r == nil {
			c.m.reflectPanic(c, "reflect: call of reflect.Value.IsNil on zero Value")
			return
		}
		switch kindOf(r.T) {
		case reflect.Ptr, reflect.Map, reflect.Slice, reflect.Func, reflect.Interface, reflect.Chan, reflect.UnsafePointer:
			c.ret(smt.Bool(isNilValue(c.m.rvGet(r))))
		default:
			c.m.reflectPanic(c, "reflect: call of reflect.Value.IsNil on "+kindOf(r.T).String()+" Value")
		}
	})
	add("(reflect.Value).IsZero", func(c *stubCtx) {
		r := rvOf(c.args[0])
		if r == nil {
			c.m.reflectPanic(c, "reflect: call of reflect.Value.IsZero on zero Value")
			return
		}
		// a value is zero iff it equals the zero value of its type (floats: +0 only; -0 is not handled apart: equality on bits)
		v := c.m.rvGet(r)
		switch kindOf(r.T) {
		case reflect.Ptr, reflect.Map, reflect.Slice, reflect.Func, reflect.Interface, reflect.Chan, reflect.UnsafePointer:
			c.ret(smt.Bool(isNilValue(v)))
		default:
			c.ret(c.m.equal(v, c.m.zero(r.T), c.ins))
		}
	})
	add("(reflect.Value).Pointer", func(c *stubCtx) {
		r := rvOf(c.args[0])
		if r == nil {
			c.m.reflectPanic(c, "reflect: call of reflect.Value.Pointer on zero Value")
			return
		}
		v := c.m.rvGet(r)
		switch kindOf(r.T) {
		case reflect.Func:
			cl, _ := v.(*Closure)
			c.ret(smt.BV(64, c.m.funcPointer(cl)))
		case reflect.Ptr:
			p := v.(Ptr)
			if p.C == nil {
				c.ret(smt.BV(64, 0))
			} else {
				c.ret(smt.BV(64, 0x10000000+uint64(p.C.ID)*4096+uint64(p.I)*8))
			}
		default:
			switch kindOf(r.T) {
			case reflect.Chan, reflect.Map, reflect.Slice, reflect.UnsafePointer:
				panic(unsupported("reflect.Value.Pointer on " + kindOf(r.T).String()))
			}
			// reflect refuses every other kind with a *ValueError panic
			c.m.reflectPanic(c, "reflect: call of reflect.Value.Pointer on "+kindOf(r.T).String()+" Value")
		}
	})
	add("(reflect.Value).Len", func(c *stubCtx) {
		r := rvOf(c.args[0])
		if r == nil {
			c.m.reflectPanic(c, "reflect: call of reflect.Value.Len on zero Value")
			return
		}
		c.ret(c.m.builtinLen(c.m.rvGet(r)))
	})
	add("(reflect.Value).String", func(c *stubCtx) {
		r := rvOf(c.args[0])
		if r != nil && kindOf(r.T) == reflect.String {
			c.ret(c.m.rvGet(r))
			return
		}
		c.ret(mkStr("<reflect.Value>"))
	})
	add("(reflect.Value).Bool", func(c *stubCtx) {
		r := rvOf(c.args[0])
		if r == nil || kindOf(r.T) != reflect.Bool {
			c.m.reflectPanic(c, "reflect: call of reflect.Value.Bool on non-bool Value")
			return
		}
		c.ret(c.m.rvGet(r))
	})
	add("(reflect.Value).Float", func(c *stubCtx) {
		r := rvOf(c.args[0])
		if r == nil || (kindOf(r.T) != reflect.Float64 && kindOf(r.T) != reflect.Float32) {
			c.m.reflectPanic(c, "reflect: call of reflect.Value.Float on non-float Value")
			return
		}
		c.ret(smt.FToFP(64, c.m.rvGet(r).(*smt.Term)))
	})
	add("(reflect.Value).Int", func(c *stubCtx) {
		r := rvOf(c.args[0])
		if r == nil {
			c.m.reflectPanic(c, "reflect: call of reflect.Value.Int on zero Value")
			return
		}
		if _, signed, ok := bvWidth(r.T); ok && signed {
			c.ret(smt.SExt(64, c.m.rvGet(r).(*smt.Term)))
			return
		}
		c.m.reflectPanic(c, "reflect: call of reflect.Value.Int on "+kindOf(r.T).String()+" Value")
	})
	add("(reflect.Value).Bytes", func(c *stubCtx) {
		r := rvOf(c.args[0])
		if r == nil {
			c.m.reflectPanic(c, "reflect: call of reflect.Value.Bytes on zero Value")
			return
		}
		c.ret(c.m.rvGet(r))
	})
	// ---- maps (the executor's maps are association lists, so reflection over them needs no addressability model) ----
	mapOf := func(c *stubCtx, what string) (*RVal, *MapObj, *types.Map, bool) {
		r := rvOf(c.args[0])
		if r == nil {
			c.m.reflectPanic(c, "reflect: call of reflect.Value."+what+" on zero Value")
			return nil, nil, nil, false
		}
		mt, ok := r.T.Underlying().(*types.Map)
		if !ok {
			c.m.reflectPanic(c, "reflect: call of reflect.Value."+what+" on "+kindOf(r.T).String()+" Value")
			return nil, nil, nil, false
		}
		mp, _ := c.m.rvGet(r).(*MapObj)
		return r, mp, mt, true
	}
	liveEntries := func(c *stubCtx, mp *MapObj, label string) []*MapEntry {
		var live []*MapEntry
		if mp != nil {
			for _, e := range mp.E {
				if e.Live {
					live = append(live, e)
				}
			}
		}
		if c.m.Cfg.Opts["maporder"] == "all" && len(live) >= 2 && len(live) <= 4 {
			perms := permutations(len(live))
			p := perms[c.m.choose(len(perms), nil, false, label+"@"+c.m.pos(c.ins))]
			ord := make([]*MapEntry, len(live))
			for k, j := range p {
				ord[k] = live[j]
			}
			live = ord
		} else if len(live) >= 2 {
			c.m.Res.Assumptions["map iteration follows insertion order (Go leaves it unspecified)"] = true
		}
		return live
	}
	add("(reflect.Value).MapKeys", func(c *stubCtx) {
		_, mp, mt, ok := mapOf(c, "MapKeys")
		if !ok {
			return
		}
		live := liveEntries(c, mp, "reflect-mapkeys")
		if len(live) == 0 {
			c.ret(Slice{Nil: true})
			return
		}
		cells := c.m.newCells(len(live))
		for i, e := range live {
			cells.E[i] = mkRV(&RVal{T: mt.Key(), V: e.K})
		}
		c.ret(Slice{C: cells, Len: len(live), Cap: len(live)})
	})
	add("(reflect.Value).MapIndex", func(c *stubCtx) {
		_, mp, mt, ok := mapOf(c, "MapIndex")
		if !ok {
			return
		}
		k := rvOf(c.args[1])
		if k == nil {
			c.m.reflectPanic(c, "reflect: call of reflect.Value.MapIndex with zero key")
			return
		}
		if mp != nil {
			if e := c.m.mapFind(mp, c.m.rvGet(k), c.ins); e != nil {
				c.ret(mkRV(&RVal{T: mt.Elem(), V: c.m.copyVal(e.V)}))
				return
			}
		}
		c.ret(c.m.zeroRV())
	})
	add("(reflect.Value).SetMapIndex", func(c *stubCtx) {
		_, mp, mt, ok := mapOf(c, "SetMapIndex")
		if !ok {
			return
		}
		if mp == nil {
			c.m.reflectPanic(c, "assignment to entry in nil map")
			return
		}
		k, v := rvOf(c.args[1]), rvOf(c.args[2])
		if k == nil {
			c.m.reflectPanic(c, "reflect: call of reflect.Value.SetMapIndex with zero key")
			return
		}
		if v == nil {
			c.m.mapDelete(mp, c.m.rvGet(k))
			c.ret(nil)
			return
		}
		if !types.AssignableTo(v.T, mt.Elem()) {
			c.m.reflectPanic(c, "reflect.Value.SetMapIndex: value of type "+v.T.String()+" is not assignable to type "+mt.Elem().String())
			return
		}
		val := c.m.rvGet(v)
		if _, isI := mt.Elem().Underlying().(*types.Interface); isI {
			if _, srcI := v.T.Underlying().(*types.Interface); !srcI {
				val = Iface{T: v.T, V: val}
			}
		}
		c.m.mapStore(mp, c.m.rvGet(k), val)
		c.ret(nil)
	})
	type mapIter struct {
		order []*MapEntry
		pos   int
		mt    *types.Map
	}
	add("(reflect.Value).MapRange", func(c *stubCtx) {
		_, mp, mt, ok := mapOf(c, "MapRange")
		if !ok {
			return
		}
		box := c.m.newCells(1)
		box.E[0] = &Opaque{Tag: "mapiter", X: &mapIter{order: liveEntries(c, mp, "reflect-maprange"), pos: -1, mt: mt}}
		c.ret(Ptr{box, 0})
	})
	iterOf := func(c *stubCtx) *mapIter {
		p, ok := c.args[0].(Ptr)
		if !ok || p.C == nil {
			return nil
		}
		o, ok := p.C.E[p.I].(*Opaque)
		if !ok || o.Tag != "mapiter" {
			return nil
		}
		return o.X.(*mapIter)
	}
	add("(*reflect.MapIter).Next", func(c *stubCtx) {
		it := iterOf(c)
		if it == nil {
			panic(unsupported("reflect.MapIter not created by MapRange"))
		}
		for {
			it.pos++
			if it.pos >= len(it.order) {
				c.ret(smt.False)
				return
			}
			if it.order[it.pos].Live {
				c.ret(smt.True)
				return
			}
		}
	})
	add("(*reflect.MapIter).Key", func(c *stubCtx) {
		it := iterOf(c)
		if it == nil || it.pos < 0 || it.pos >= len(it.order) {
			c.m.reflectPanic(c, "MapIter.Key called before Next")
			return
		}
		c.ret(mkRV(&RVal{T: it.mt.Key(), V: it.order[it.pos].K}))
	})
	add("(*reflect.MapIter).Value", func(c *stubCtx) {
		it := iterOf(c)
		if it == nil || it.pos < 0 || it.pos >= len(it.order) {
			c.m.reflectPanic(c, "MapIter.Value called before Next")
			return
		}
		c.ret(mkRV(&RVal{T: it.mt.Elem(), V: c.m.copyVal(it.order[it.pos].V)}))
	})
	setIter := func(name string, key bool) {
		add("(reflect.Value)."+name, func(c *stubCtx) {
			r := rvOf(c.args[0])
			if r == nil || !r.HasAddr || r.RO {
				c.m.reflectPanic(c, "reflect: reflect.Value."+name+" using unaddressable value")
				return
			}
			p, ok := c.args[1].(Ptr)
			var it *mapIter
			if ok && p.C != nil {
				if o, isO := p.C.E[p.I].(*Opaque); isO && o.Tag == "mapiter" {
					it = o.X.(*mapIter)
				}
			}
			if it == nil || it.pos < 0 || it.pos >= len(it.order) {
				c.m.reflectPanic(c, "reflect: "+name+" called before MapIter.Next")
				return
			}
			e := it.order[it.pos]
			v, t := e.K, it.mt.Key()
			if !key {
				v, t = c.m.copyVal(e.V), it.mt.Elem()
			}
			if !types.AssignableTo(t, r.T) {
				c.m.reflectPanic(c, "reflect."+name+": value of type "+t.String()+" is not assignable to type "+r.T.String())
				return
			}
			c.m.storeCell(r.Addr.C, r.Addr.I, v)
			c.ret(nil)
		})
	}
	setIter("SetIterKey", true)
	setIter("SetIterValue", false)
	add("(reflect.Value).Call", func(c *stubCtx) { c.m.reflectCall(c) })
	add("reflect.FuncOf", func(c *stubCtx) {
		var ins, outs []*types.Var
		for _, e := range c.m.sliceElems(c.args[0]) {
			t, ok := rtypeOf(e)
			if !ok {
				c.m.reflectPanic(c, "reflect.FuncOf: nil type")
				return
			}
			ins = append(ins, types.NewVar(0, nil, "", t))
		}
		if c.args[1] != nil {
			if sl, ok := c.args[1].(Slice); ok && !sl.Nil {
				for _, e := range c.m.sliceElems(sl) {
					t, _ := rtypeOf(e)
					outs = append(outs, types.NewVar(0, nil, "", t))
				}
			}
		}
		variadic := c.args[2].(*smt.Term).IsTrue()
		sig := types.NewSignatureType(nil, nil, nil, types.NewTuple(ins...), types.NewTuple(outs...), variadic)
		c.ret(c.m.rtype(sig))
	})
	add("reflect.MakeFunc", func(c *stubCtx) {
		t, ok := rtypeOf(c.args[0])
		if !ok {
			c.m.reflectPanic(c, "reflect: call of MakeFunc with non-Func type")
			return
		}
		sig, isSig := t.Underlying().(*types.Signature)
		if !isSig {
			c.m.reflectPanic(c, "reflect: call of MakeFunc with non-Func type")
			return
		}
		c.m.nextObj++
		cl := &Closure{Native: "makefunc", Env: []Value{c.args[1], &Opaque{Tag: "sig", X: sig}}, ID: c.m.nextObj}
		c.ret(mkRV(&RVal{T: t, V: cl}))
	})
	add("(reflect.Value).Set", func(c *stubCtx) {
		r, x := rvOf(c.args[0]), rvOf(c.args[1])
		if r == nil || x == nil {
			c.m.reflectPanic(c, "reflect: call of reflect.Value.Set on zero Value")
			return
		}
		if !r.HasAddr || r.RO {
			c.m.reflectPanic(c, "reflect: reflect.Value.Set using unaddressable value")
			return
		}
		if !types.AssignableTo(x.T, r.T) {
			c.m.reflectPanic(c, "reflect.Set: value of type "+x.T.String()+" is not assignable to type "+r.T.String())
			return
		}
		v := c.m.rvGet(x)
		if _, isI := r.T.Underlying().(*types.Interface); isI {
			if _, srcI := x.T.Underlying().(*types.Interface); !srcI {
				v = Iface{T: x.T, V: v}
			}
		}
		c.m.storeCell(r.Addr.C, r.Addr.I, v)
		c.ret(nil)
	})
}

func (m *Machine) zeroRV() Value {
	// the zero reflect.Value: any value that rvOf maps to nil
	return &Opaque{Tag: "reflect.Value.zero"}
}

// reflectCall implements reflect.Value.Call with the argument checks reflect documents.
func (m *Machine) reflectCall(c *stubCtx) {
	r := rvOf(c.args[0])
	if r == nil {
		m.reflectPanic(c, "reflect: call of reflect.Value.Call on zero Value")
		return
	}
	sig, ok := r.T.Underlying().(*types.Signature)
	if !ok {
		m.reflectPanic(c, "reflect: call of reflect.Value.Call on "+kindOf(r.T).String()+" Value")
		return
	}
	cl, _ := m.rvGet(r).(*Closure)
	if cl == nil {
		m.reflectPanic(c, "reflect: call of nil function")
		return
	}
	in := m.sliceElems(c.args[1])
	n := sig.Params().Len()
	if sig.Variadic() {
		if len(in) < n-1 {
			m.reflectPanic(c, "reflect: Call with too few input arguments")
			return
		}
	} else {
		if len(in) < n {
			m.reflectPanic(c, "reflect: Call with too few input arguments")
			return
		}
		if len(in) > n {
			m.reflectPanic(c, "reflect: Call with too many input arguments")
			return
		}
	}
	conv := func(a Value, want types.Type) (Value, bool) {
		ar := rvOf(a)
		if ar == nil {
			m.reflectPanic(c, "reflect: Call using zero Value argument")
			return nil, false
		}
		if !types.AssignableTo(ar.T, want) {
			m.reflectPanic(c, "reflect: Call using "+ar.T.String()+" as type "+want.String())
			return nil, false
		}
		v := m.rvGet(ar)
		if _, isI := want.Underlying().(*types.Interface); isI {
			if _, srcI := ar.T.Underlying().(*types.Interface); !srcI {
				v = Iface{T: ar.T, V: v}
			}
		}
		return v, true
	}
	var args []Value
	fixed := n
	if sig.Variadic() {
		fixed = n - 1
	}
	for i := 0; i < fixed; i++ {
		v, ok := conv(in[i], sig.Params().At(i).Type())
		if !ok {
			return
		}
		args = append(args, v)
	}
	if sig.Variadic() {
		et := sig.Params().At(n - 1).Type().(*types.Slice).Elem()
		rest := in[fixed:]
		cells := m.newCells(len(rest))
		for i, a := range rest {
			v, ok := conv(a, et)
			if !ok {
				return
			}
			cells.E[i] = v
		}
		if len(rest) == 0 {
			args = append(args, Slice{Nil: true})
		} else {
			args = append(args, Slice{C: cells, Len: len(rest), Cap: len(rest)})
		}
	}
	// call, then wrap results
	m.noAdvanceNext = true
	m.invoke(c.t, cl, args, c.ins, func(res Value) {
		var outs []Value
		switch sig.Results().Len() {
		case 0:
		case 1:
			outs = []Value{mkRV(&RVal{T: sig.Results().At(0).Type(), V: res})}
		default:
			for i, e := range res.(Tuple) {
				outs = append(outs, mkRV(&RVal{T: sig.Results().At(i).Type(), V: e}))
			}
		}
		if len(outs) == 0 {
			c.ret(Slice{Nil: true})
			return
		}
		cells := m.newCells(len(outs))
		copy(cells.E, outs)
		c.ret(Slice{C: cells, Len: len(outs), Cap: len(outs)})
	}, c.deferOwner)
}

// rtypeMethod implements methods invoked on a reflect.Type interface value.
func (m *Machine) rtypeMethod(t *Thread, name string, args []Value, ins ssa.Instruction, ret func(Value)) {
	T := args[0].(*Opaque).X.(types.Type)
	pan := func(msg string) {
		m.goPanicVal(t, Iface{T: types.Typ[types.String], V: mkStr(msg)}, msg, ins)
	}
	switch name {
	case "Kind":
		ret(kindTerm(kindOf(T)))
	case "String", "Name":
		ret(mkStr(types.TypeString(T, func(p *types.Package) string { return p.Name() })))
	case "Elem":
		switch u := T.Underlying().(type) {
		case *types.Pointer:
			ret(m.rtype(u.Elem()))
		case *types.Slice:
			ret(m.rtype(u.Elem()))
		case *types.Array:
			ret(m.rtype(u.Elem()))
		case *types.Map:
			ret(m.rtype(u.Elem()))
		case *types.Chan:
			ret(m.rtype(u.Elem()))
		default:
			pan("reflect: Elem of invalid type " + T.String())
		}
	case "Key":
		if u, ok := T.Underlying().(*types.Map); ok {
			ret(m.rtype(u.Key()))
		} else {
			pan("reflect: Key of non-map type " + T.String())
		}
	case "NumIn", "NumOut", "IsVariadic", "In", "Out":
		sig, ok := T.Underlying().(*types.Signature)
		if !ok {
			pan("reflect: " + name + " of non-func type " + T.String())
			return
		}
		switch name {
		case "NumIn":
			ret(smt.BV(64, uint64(sig.Params().Len())))
		case "NumOut":
			ret(smt.BV(64, uint64(sig.Results().Len())))
		case "IsVariadic":
			ret(smt.Bool(sig.Variadic()))
		case "In", "Out":
			tup := sig.Params()
			if name == "Out" {
				tup = sig.Results()
			}
			i := args[1].(*smt.Term)
			if !i.IsConst() {
				panic(unsupported("reflect.Type.In with symbolic index"))
			}
			k := int(i.SInt())
			if k < 0 || k >= tup.Len() {
				pan("reflect: Func index out of bounds")
				return
			}
			ret(m.rtype(tup.At(k).Type()))
		}
	case "Implements":
		u, ok := rtypeOf(args[1])
		if !ok {
			pan("reflect: nil type passed to Type.Implements")
			return
		}
		it, isI := u.Underlying().(*types.Interface)
		if !isI {
			pan("reflect: non-interface type passed to Type.Implements")
			return
		}
		ret(smt.Bool(types.Implements(T, it)))
	case "AssignableTo":
		u, _ := rtypeOf(args[1])
		ret(smt.Bool(types.AssignableTo(T, u)))
	case "NumField":
		if st, ok := T.Underlying().(*types.Struct); ok {
			ret(smt.BV(64, uint64(st.NumFields())))
		} else {
			pan("reflect: NumField of non-struct type " + T.String())
		}
	case "Len":
		if a, ok := T.Underlying().(*types.Array); ok {
			ret(smt.BV(64, uint64(a.Len())))
		} else {
			pan("reflect: Len of non-array type " + T.String())
		}
	case "Comparable":
		ret(smt.Bool(types.Comparable(T)))
	default:
		panic(unsupported(fmt.Sprintf("reflect.Type.%s", name)))
	}
}

// callMakeFunc runs a function created by reflect.MakeFunc: the arguments are wrapped into reflect.Values and handed to
// the implementation closure; its results are unwrapped.
func (m *Machine) callMakeFunc(t *Thread, cl *Closure, args []Value, ins ssa.Instruction, onRet func(Value), advance func(), deferOwner *Frame) {
	impl := cl.Env[0].(*Closure)
	sig := cl.Env[1].(*Opaque).X.(*types.Signature)
	cells := m.newCells(len(args))
	for i, a := range args {
		pt := sig.Params().At(i).Type()
		cells.E[i] = mkRV(&RVal{T: pt, V: a})
	}
	var in Value = Slice{Nil: true}
	if len(args) > 0 {
		in = Slice{C: cells, Len: len(args), Cap: len(args)}
	}
	m.noAdvanceNext = true
	m.invoke(t, impl, []Value{in}, ins, func(res Value) {
		var out Value
		rs := sig.Results()
		if rs.Len() > 0 {
			elems := m.sliceElems(res)
			if len(elems) != rs.Len() {
				panic(unsupported("reflect.MakeFunc implementation returned wrong number of results"))
			}
			if rs.Len() == 1 {
				out = m.rvGet(rvOf(elems[0]))
			} else {
				tp := make(Tuple, rs.Len())
				for i := range tp {
					tp[i] = m.rvGet(rvOf(elems[i]))
				}
				out = tp
			}
		}
		onRet(out)
		advance()
	}, deferOwner)
}
