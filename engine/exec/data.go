package exec

import (
	"fmt"
	"go/types"

	"golang.org/x/tools/go/ssa"

	"verif/engine/smt"
)

func (m *Machine) idx64(v Value, t types.Type) *smt.Term {
	tm := v.(*smt.Term)
	if tm.Sort.W == 64 {
		return tm
	}
	_, signed, _ := bvWidth(t)
	if signed {
		return smt.SExt(64, tm)
	}
	return smt.ZExt(64, tm)
}

// checkIndex resolves idx to a concrete in-range index of a container of length n,
// raising the Go bounds panic on the out-of-range side. ok=false means a panic was started.
func (m *Machine) checkIndex(t *Thread, idx *smt.Term, n int, ins ssa.Instruction) (int, bool) {
	inb := smt.Ult(idx, smt.BV(64, uint64(n)))
	if inb.IsConst() {
		if inb.IsTrue() {
			return int(idx.U), true
		}
		m.goPanic(t, fmt.Sprintf("runtime error: index out of range [%d] with length %d", idx.SInt(), n), ins)
		return 0, false
	}
	m.Res.PanicChecks++
	if !m.branch(inb, "bounds@"+m.pos(ins)) {
		m.goPanic(t, fmt.Sprintf("runtime error: index out of range [symbolic] with length %d", n), ins)
		return 0, false
	}
	return int(m.concretize(idx, 0, int64(n-1), "index@"+m.pos(ins))), true
}

func (m *Machine) doIndexAddr(t *Thread, f *Frame, i *ssa.IndexAddr) {
	x := m.get(f, i.X)
	idx := m.idx64(m.get(f, i.Index), i.Index.Type())
	switch a := x.(type) {
	case Slice:
		if !idx.IsConst() && scalarElem(i.Type()) && a.Len <= 512 && a.Len > 0 {
			if !m.symBounds(t, idx, a.Len, i) {
				return
			}
			f.Regs[i] = SymPtr{C: a.C, Off: a.Off, N: a.Len, Idx: idx}
			break
		}
		k, ok := m.checkIndex(t, idx, a.Len, i)
		if !ok {
			return
		}
		f.Regs[i] = Ptr{a.C, a.Off + k}
	case Ptr: // *array
		if a.C == nil {
			m.goPanic(t, "runtime error: invalid memory address or nil pointer dereference", i)
			return
		}
		arr := a.C.E[a.I].(*Cells)
		if !idx.IsConst() && scalarElem(i.Type()) && len(arr.E) <= 512 && len(arr.E) > 0 {
			if !m.symBounds(t, idx, len(arr.E), i) {
				return
			}
			f.Regs[i] = SymPtr{C: arr, Off: 0, N: len(arr.E), Idx: idx}
			break
		}
		k, ok := m.checkIndex(t, idx, len(arr.E), i)
		if !ok {
			return
		}
		f.Regs[i] = Ptr{arr, k}
	case AbsSlice:
		inb := smt.Ult(idx, a.Len)
		m.Res.PanicChecks++
		if !m.branch(inb, "absbounds@"+m.pos(i)) {
			m.goPanic(t, "runtime error: index out of range (abstract slice)", i)
			return
		}
		f.Regs[i] = AbsPtr{B: a.B, Idx: smt.Add(a.Off, idx)}
	default:
		panic(unsupported(fmt.Sprintf("IndexAddr on %T at %s", x, m.pos(i))))
	}
	f.PC++
}

// scalarElem reports whether a pointer type points at a plain numeric/bool cell.
func scalarElem(pt types.Type) bool {
	p, ok := pt.Underlying().(*types.Pointer)
	if !ok {
		return false
	}
	if _, _, ok := bvWidth(p.Elem()); ok {
		return true
	}
	return isBool(p.Elem())
}

// symBounds raises the bounds obligation for a symbolic index; false means a panic was started.
func (m *Machine) symBounds(t *Thread, idx *smt.Term, n int, ins ssa.Instruction) bool {
	inb := smt.Ult(idx, smt.BV(64, uint64(n)))
	if inb.IsTrue() {
		return true
	}
	m.Res.PanicChecks++
	if !m.branch(inb, "bounds@"+m.pos(ins)) {
		m.goPanic(t, fmt.Sprintf("runtime error: index out of range [symbolic] with length %d", n), ins)
		return false
	}
	return true
}

// selectByIndex builds an ite-chain reading elems[idx] (all scalar terms) without forking.
func selectByIndex(elems []Value, idx *smt.Term) (*smt.Term, bool) {
	if len(elems) == 0 || len(elems) > 512 {
		return nil, false
	}
	first, ok := elems[0].(*smt.Term)
	if !ok {
		return nil, false
	}
	ts := make([]*smt.Term, len(elems))
	for k, e := range elems {
		t, ok := e.(*smt.Term)
		if !ok || t.Sort != first.Sort {
			return nil, false
		}
		ts[k] = t
	}
	return selectTree(ts, 0, idx), true
}

// selectTree builds a balanced ite tree (uniform regions collapse through Ite's a==b simplification).
func selectTree(ts []*smt.Term, base int, idx *smt.Term) *smt.Term {
	if len(ts) == 1 {
		return ts[0]
	}
	mid := len(ts) / 2
	l := selectTree(ts[:mid], base, idx)
	r := selectTree(ts[mid:], base+mid, idx)
	return smt.Ite(smt.Ult(idx, smt.BV(64, uint64(base+mid))), l, r)
}

func (m *Machine) doIndex(t *Thread, f *Frame, i *ssa.Index) {
	x := m.get(f, i.X)
	idx := m.idx64(m.get(f, i.Index), i.Index.Type())
	switch a := x.(type) {
	case *Cells: // array value
		k, ok := m.checkIndex(t, idx, len(a.E), i)
		if !ok {
			return
		}
		f.Regs[i] = m.copyVal(a.E[k])
	case Str:
		v, ok := m.strIndex(t, a, idx, i)
		if !ok {
			return
		}
		f.Regs[i] = v
	default:
		panic(unsupported(fmt.Sprintf("Index on %T", x)))
	}
	f.PC++
}

func (m *Machine) strIndex(t *Thread, a Str, idx *smt.Term, ins ssa.Instruction) (Value, bool) {
	n := len(a.B)
	inb := smt.Ult(idx, smt.BV(64, uint64(n)))
	if inb.IsConst() {
		if inb.IsTrue() {
			return a.B[idx.U], true
		}
		m.goPanic(t, fmt.Sprintf("runtime error: index out of range [%d] with length %d", idx.SInt(), n), ins)
		return nil, false
	}
	m.Res.PanicChecks++
	if !m.branch(inb, "bounds@"+m.pos(ins)) {
		m.goPanic(t, fmt.Sprintf("runtime error: index out of range [symbolic] with length %d", n), ins)
		return nil, false
	}
	elems := make([]Value, n)
	for k := range a.B {
		elems[k] = a.B[k]
	}
	if v, ok := selectByIndex(elems, idx); ok {
		return v, true
	}
	k := m.concretize(idx, 0, int64(n-1), "stridx@"+m.pos(ins))
	return a.B[k], true
}

func (m *Machine) doLookup(t *Thread, f *Frame, i *ssa.Lookup) {
	x := m.get(f, i.X)
	switch a := x.(type) {
	case Str:
		idx := m.idx64(m.get(f, i.Index), i.Index.Type())
		v, ok := m.strIndex(t, a, idx, i)
		if !ok {
			return
		}
		f.Regs[i] = v
	case *MapObj:
		key := m.get(f, i.Index)
		var val Value
		found := false
		m.raceMap(t, a, false, i)
		if a != nil {
			if e := m.mapFind(a, key, i); e != nil {
				val, found = m.copyVal(e.V), true
			}
		}
		if !found {
			val = m.zero(i.X.Type().Underlying().(*types.Map).Elem())
		}
		if i.CommaOk {
			f.Regs[i] = Tuple{val, smt.Bool(found)}
		} else {
			f.Regs[i] = val
		}
	default:
		panic(unsupported(fmt.Sprintf("Lookup on %T", x)))
	}
	f.PC++
}

// mapFind returns the live entry whose key equals key (forking on symbolic equality).
func (m *Machine) mapFind(mp *MapObj, key Value, ins ssa.Instruction) *MapEntry {
	if ifc, ok := key.(Iface); ok && ifc.T != nil && !types.Comparable(ifc.T) {
		panic(unsupported("map key of uncomparable dynamic type"))
	}
	for _, e := range mp.E {
		if !e.Live {
			continue
		}
		c := m.equal(e.K, key, ins)
		if c.IsFalse() {
			continue
		}
		if c.IsTrue() || m.branch(c, "mapkey@"+m.pos(ins)) {
			return e
		}
	}
	return nil
}

func (m *Machine) mapStore(mp *MapObj, key, val Value) {
	if e := m.mapFind(mp, key, nil); e != nil {
		e.V = m.copyVal(val)
		return
	}
	mp.E = append(mp.E, &MapEntry{K: m.copyVal(key), V: m.copyVal(val), Live: true})
}

func (m *Machine) mapDelete(mp *MapObj, key Value) {
	if mp == nil {
		return
	}
	if e := m.mapFind(mp, key, nil); e != nil {
		e.Live = false
	}
}

func (m *Machine) mapLen(mp *MapObj) int {
	if mp == nil {
		return 0
	}
	n := 0
	for _, e := range mp.E {
		if e.Live {
			n++
		}
	}
	return n
}

type rangeIter struct {
	mp    *MapObj
	order []*MapEntry
	str   Str
	pos   int
	isStr bool
}

func (m *Machine) doRange(f *Frame, i *ssa.Range) Value {
	x := m.get(f, i.X)
	switch a := x.(type) {
	case Str:
		return &Opaque{Tag: "iter", X: &rangeIter{str: a, isStr: true}}
	case *MapObj:
		it := &rangeIter{mp: a}
		m.raceMap(m.cur, a, false, i)
		if a != nil {
			// iteration order: insertion order by default; "maporder=all" forks over every permutation (≤4 entries)
			var live []*MapEntry
			for _, e := range a.E {
				if e.Live {
					live = append(live, e)
				}
			}
			if m.Cfg.Opts["maporder"] == "all" && len(live) >= 2 && len(live) <= 4 {
				perms := permutations(len(live))
				p := perms[m.choose(len(perms), nil, false, "maporder@"+m.pos(i))]
				ord := make([]*MapEntry, len(live))
				for k, j := range p {
					ord[k] = live[j]
				}
				live = ord
			} else if len(live) >= 2 {
				m.Res.Assumptions["map iteration follows insertion order (Go leaves it unspecified)"] = true
			}
			it.order = live
		}
		return &Opaque{Tag: "iter", X: it}
	}
	panic(unsupported(fmt.Sprintf("Range on %T", x)))
}

func permutations(n int) [][]int {
	var res [][]int
	var rec func(cur []int, used int)
	rec = func(cur []int, used int) {
		if len(cur) == n {
			res = append(res, append([]int(nil), cur...))
			return
		}
		for k := 0; k < n; k++ {
			if used&(1<<uint(k)) == 0 {
				rec(append(cur, k), used|1<<uint(k))
			}
		}
	}
	rec(nil, 0)
	return res
}

func (m *Machine) doNext(f *Frame, i *ssa.Next) Value {
	it := m.get(f, i.Iter).(*Opaque).X.(*rangeIter)
	if it.isStr {
		if it.pos >= len(it.str.B) {
			return Tuple{smt.False, smt.BV(64, 0), smt.BV(32, 0)}
		}
		b := it.str.B[it.pos]
		ascii := smt.Ult(b, smt.BV(8, 0x80))
		if !m.branch(ascii, "range-string-ascii") {
			if cs, ok := concreteStr(Str{it.str.B[it.pos:]}); ok {
				for idx, r := range cs {
					_ = idx
					sz := len(string(r))
					if r == 0xFFFD {
						sz = 1
					}
					p := it.pos
					it.pos += sz
					return Tuple{smt.True, smt.BV(64, uint64(p)), smt.BV(32, uint64(r))}
				}
			}
			panic(unsupported("range over string with symbolic non-ASCII byte"))
		}
		p := it.pos
		it.pos++
		return Tuple{smt.True, smt.BV(64, uint64(p)), smt.ZExt(32, b)}
	}
	mt := i.Iter.(*ssa.Range).X.Type().Underlying().(*types.Map)
	for it.pos < len(it.order) {
		e := it.order[it.pos]
		it.pos++
		if e.Live {
			return Tuple{smt.True, m.copyVal(e.K), m.copyVal(e.V)}
		}
	}
	// entries inserted during iteration: Go may or may not produce them; we do not (stated assumption)
	return Tuple{smt.False, m.zero(mt.Key()), m.zero(mt.Elem())}
}

func (m *Machine) doMakeSlice(t *Thread, f *Frame, i *ssa.MakeSlice) {
	ln := m.idx64(m.get(f, i.Len), i.Len.Type())
	cp := m.idx64(m.get(f, i.Cap), i.Cap.Type())
	et := i.Type().Underlying().(*types.Slice).Elem()
	if !ln.IsConst() || !cp.IsConst() {
		// symbolic size: only byte slices, as abstract slices
		if b, ok := et.Underlying().(*types.Basic); !ok || b.Kind() != types.Uint8 {
			// the Go panic for an absurd size is checked first (it is what a peer-controlled count can trigger); a
			// feasible in-range symbolic size of a non-byte slice is then concretised if it has few values
			esz := types.SizesFor("gc", "amd64").Sizeof(et)
			if esz <= 0 {
				esz = 1
			}
			limit := int64(1<<47) / esz
			bad := smt.Or(smt.Slt(ln, smt.BV(64, 0)), smt.Or(smt.Slt(cp, ln), smt.Not(smt.Slt(cp, smt.BV(64, uint64(limit))))))
			m.Res.PanicChecks++
			if m.branch(bad, "makeslice@"+m.pos(i)) {
				m.goPanic(t, "runtime error: makeslice: len out of range", i)
				return
			}
			m.allocs = append(m.allocs, allocRec{size: cp, where: m.pos(i)})
			c := m.concretize(cp, 0, 1<<20, "makecap@"+m.pos(i))
			l := m.concretize(ln, 0, c, "makelen@"+m.pos(i))
			cells := m.newCells(int(c))
			for k := 0; k < int(c); k++ {
				cells.E[k] = m.zero(et)
			}
			f.Regs[i] = Slice{C: cells, Off: 0, Len: int(l), Cap: int(c)}
			f.PC++
			return
		}
		// Go panics when len < 0, len > cap or the size exceeds the address space (maxAlloc 2^48 on amd64)
		bad := smt.Or(smt.Slt(ln, smt.BV(64, 0)), smt.Or(smt.Slt(cp, ln), smt.Not(smt.Slt(cp, smt.BV(64, 1<<47)))))
		m.Res.PanicChecks++
		if m.branch(bad, "makeslice@"+m.pos(i)) {
			m.goPanic(t, "runtime error: makeslice: len out of range", i)
			return
		}
		m.allocs = append(m.allocs, allocRec{size: cp, where: m.pos(i)})
		m.nextObj++
		buf := &AbsBuf{Arr: m.zeroArr(), ID: m.nextObj}
		f.Regs[i] = AbsSlice{B: buf, Off: smt.BV(64, 0), Len: ln, Cap: cp}
		f.PC++
		return
	}
	l, c := ln.SInt(), cp.SInt()
	if l < 0 || c < l {
		m.goPanic(t, "runtime error: makeslice: len out of range", i)
		return
	}
	if c > 1<<20 {
		panic(unsupported(fmt.Sprintf("make of %d elements at %s", c, m.pos(i))))
	}
	m.allocs = append(m.allocs, allocRec{size: cp, where: m.pos(i)})
	cells := m.newCells(int(c))
	if c > 0 {
		z := m.zero(et)
		cells.E[0] = z
		for k := 1; k < int(c); k++ {
			cells.E[k] = m.copyVal(z)
		}
	}
	f.Regs[i] = Slice{C: cells, Off: 0, Len: int(l), Cap: int(c)}
	f.PC++
}

type allocRec struct {
	size  *smt.Term
	where string
}

func (m *Machine) zeroArr() *smt.Term {
	// an uninterpreted fresh array constrained nowhere: contents of a zeroed buffer are never asserted on in abstract mode
	m.nextVar++
	return smt.Var(fmt.Sprintf("arr_%d", m.nextVar), smt.SArr)
}

// sliceBounds resolves optional lo/hi/max against limit, raising the bounds panic when violated.
func (m *Machine) sliceBounds(t *Thread, f *Frame, i *ssa.Slice, length, capLimit int, isString bool) (lo, hi, max int, ok bool) {
	var loT, hiT, maxT *smt.Term
	if i.Low != nil {
		loT = m.idx64(m.get(f, i.Low), i.Low.Type())
	} else {
		loT = smt.BV(64, 0)
	}
	if i.High != nil {
		hiT = m.idx64(m.get(f, i.High), i.High.Type())
	} else {
		hiT = smt.BV(64, uint64(length))
	}
	if i.Max != nil {
		maxT = m.idx64(m.get(f, i.Max), i.Max.Type())
	} else {
		maxT = smt.BV(64, uint64(capLimit))
	}
	// 0 <= lo <= hi <= max <= capLimit  (unsigned comparisons catch negatives)
	limit := capLimit
	if isString {
		limit = length
	}
	okc := smt.AndN(smt.Ule(loT, hiT), smt.Ule(hiT, maxT), smt.Ule(maxT, smt.BV(64, uint64(limit))))
	if okc.IsConst() {
		if okc.IsFalse() {
			m.goPanic(t, fmt.Sprintf("runtime error: slice bounds out of range [%d:%d] with capacity %d", loT.SInt(), hiT.SInt(), limit), i)
			return 0, 0, 0, false
		}
		return int(loT.U), int(hiT.U), int(maxT.U), true
	}
	m.Res.PanicChecks++
	if !m.branch(okc, "slicebounds@"+m.pos(i)) {
		m.goPanic(t, fmt.Sprintf("runtime error: slice bounds out of range [symbolic] with capacity %d", limit), i)
		return 0, 0, 0, false
	}
	lo = int(m.concretize(loT, 0, int64(limit), "slicelo@"+m.pos(i)))
	hi = int(m.concretize(hiT, int64(lo), int64(limit), "slicehi@"+m.pos(i)))
	max = int(m.concretize(maxT, int64(hi), int64(limit), "slicemax@"+m.pos(i)))
	return lo, hi, max, true
}

func (m *Machine) doSlice(t *Thread, f *Frame, i *ssa.Slice) {
	x := m.get(f, i.X)
	switch a := x.(type) {
	case Str:
		if v, handled := m.symStrSlice(t, f, i, a); handled {
			if v != nil {
				f.Regs[i] = v
				f.PC++
			}
			return
		}
		lo, hi, _, ok := m.sliceBounds(t, f, i, len(a.B), len(a.B), true)
		if !ok {
			return
		}
		f.Regs[i] = Str{a.B[lo:hi]}
	case Slice:
		lo, hi, max, ok := m.sliceBounds(t, f, i, a.Len, a.Cap, false)
		if !ok {
			return
		}
		if a.Nil {
			f.Regs[i] = Slice{Nil: true}
		} else {
			f.Regs[i] = Slice{C: a.C, Off: a.Off + lo, Len: hi - lo, Cap: max - lo}
		}
	case Ptr: // *array
		if a.C == nil {
			m.goPanic(t, "runtime error: invalid memory address or nil pointer dereference", i)
			return
		}
		arr := a.C.E[a.I].(*Cells)
		lo, hi, max, ok := m.sliceBounds(t, f, i, len(arr.E), len(arr.E), false)
		if !ok {
			return
		}
		f.Regs[i] = Slice{C: arr, Off: lo, Len: hi - lo, Cap: max - lo}
	case AbsSlice:
		m.doAbsSlice(t, f, i, a)
		return
	default:
		panic(unsupported(fmt.Sprintf("Slice on %T", x)))
	}
	f.PC++
}

func (m *Machine) doAbsSlice(t *Thread, f *Frame, i *ssa.Slice, a AbsSlice) {
	lo, hi := smt.BV(64, 0), a.Len
	max := a.Cap
	if i.Low != nil {
		lo = m.idx64(m.get(f, i.Low), i.Low.Type())
	}
	if i.High != nil {
		hi = m.idx64(m.get(f, i.High), i.High.Type())
	}
	if i.Max != nil {
		max = m.idx64(m.get(f, i.Max), i.Max.Type())
	}
	okc := smt.AndN(smt.Ule(lo, hi), smt.Ule(hi, max), smt.Ule(max, a.Cap))
	m.Res.PanicChecks++
	if !m.branch(okc, "absslicebounds@"+m.pos(i)) {
		m.goPanic(t, "runtime error: slice bounds out of range (abstract slice)", i)
		return
	}
	f.Regs[i] = AbsSlice{B: a.B, Off: smt.Add(a.Off, lo), Len: smt.Sub(hi, lo), Cap: smt.Sub(max, lo)}
	f.PC++
}

func (m *Machine) doTypeAssert(t *Thread, f *Frame, i *ssa.TypeAssert) {
	x := m.get(f, i.X).(Iface)
	ok := false
	if x.T != nil {
		if it, isI := i.AssertedType.Underlying().(*types.Interface); isI {
			ok = m.P.implements(x.T, it)
		} else {
			ok = types.Identical(x.T, i.AssertedType)
		}
	}
	var v Value
	if ok {
		if _, isI := i.AssertedType.Underlying().(*types.Interface); isI {
			v = x
		} else {
			v = m.copyVal(x.V)
		}
	} else {
		v = m.zero(i.AssertedType)
	}
	if i.CommaOk {
		f.Regs[i] = Tuple{v, smt.Bool(ok)}
		f.PC++
		return
	}
	if !ok {
		have := "nil"
		if x.T != nil {
			have = x.T.String()
		}
		m.goPanic(t, "interface conversion: interface is "+have+", not "+i.AssertedType.String(), i)
		return
	}
	f.Regs[i] = v
	f.PC++
}

// symStrSlice handles s[lo:hi] with symbolic lo but constant width hi-lo without forking: each result byte is an
// ite-tree over the source. handled=false means the generic path applies; a nil value with handled=true means a panic
// was started.
func (m *Machine) symStrSlice(t *Thread, f *Frame, i *ssa.Slice, a Str) (Value, bool) {
	if i.Low == nil || i.High == nil || len(a.B) == 0 || len(a.B) > 512 {
		return nil, false
	}
	lo := m.idx64(m.get(f, i.Low), i.Low.Type())
	hi := m.idx64(m.get(f, i.High), i.High.Type())
	if lo.IsConst() {
		return nil, false
	}
	width := smt.Sub(hi, lo)
	if !width.IsConst() || width.U > 64 {
		return nil, false
	}
	n := len(a.B)
	okc := smt.And(smt.Ule(lo, hi), smt.Ule(hi, smt.BV(64, uint64(n))))
	if !okc.IsTrue() {
		m.Res.PanicChecks++
		if !m.branch(okc, "slicebounds@"+m.pos(i)) {
			m.goPanic(t, fmt.Sprintf("runtime error: slice bounds out of range [symbolic] with length %d", n), i)
			return nil, true
		}
	}
	out := make([]*smt.Term, width.U)
	for k := range out {
		out[k] = selectTree(a.B, 0, smt.Add(lo, smt.BV(64, uint64(k))))
	}
	return Str{out}, true
}
