package exec

import (
	"fmt"
	"go/constant"
	"go/token"
	"go/types"
	"strings"
	"time"

	"golang.org/x/tools/go/ssa"

	"verif/engine/smt"
)

func (m *Machine) constValue(c *ssa.Const) Value {
	t := c.Type()
	if c.Value == nil {
		return m.zero(t)
	}
	if tp, ok := t.(*types.TypeParam); ok {
		_ = tp
		panic(unsupported("const of type param"))
	}
	if w, signed, ok := bvWidth(t); ok {
		if signed {
			if v, exact := constant.Int64Val(constant.ToInt(c.Value)); exact {
				return smt.BV(w, uint64(v))
			}
		}
		if v, exact := constant.Uint64Val(constant.ToInt(c.Value)); exact {
			return smt.BV(w, v)
		}
		v, _ := constant.Int64Val(constant.ToInt(c.Value))
		return smt.BV(w, uint64(v))
	}
	if w, ok := isFloat(t); ok {
		f, _ := constant.Float64Val(c.Value)
		if w == 32 {
			return smt.F32(float32(f))
		}
		return smt.F64(f)
	}
	if isString(t) {
		s := constant.StringVal(c.Value)
		if v, ok := m.strIntern[s]; ok {
			return v
		}
		v := mkStr(s)
		m.strIntern[s] = v
		return v
	}
	if isBool(t) {
		return smt.Bool(constant.BoolVal(c.Value))
	}
	panic(unsupported("const of type " + t.String()))
}

func (m *Machine) get(f *Frame, v ssa.Value) Value {
	switch x := v.(type) {
	case *ssa.Const:
		return m.constValue(x)
	case *ssa.Global:
		return m.globalPtr(x)
	case *ssa.Function:
		return m.funcValue(x)
	case *ssa.Builtin:
		return &Closure{Native: "builtin:" + x.Name()}
	}
	if r, ok := f.Regs[v]; ok {
		return r
	}
	panic(fmt.Sprintf("internal: no value for %s (%T) in %s", v.Name(), v, f.Fn))
}

func (m *Machine) funcValue(fn *ssa.Function) *Closure {
	return &Closure{Fn: fn}
}

func (m *Machine) globalPtr(g *ssa.Global) Ptr {
	if p, ok := m.globals[g]; ok {
		return p
	}
	m.ensureInit(g.Pkg)
	if p, ok := m.globals[g]; ok {
		return p
	}
	return m.allocGlobal(g)
}

func (m *Machine) allocGlobal(g *ssa.Global) Ptr {
	box := m.newCells(1)
	box.E[0] = m.zero(g.Type().(*types.Pointer).Elem())
	p := Ptr{box, 0}
	m.globals[g] = p
	return p
}

// ensureInit runs the package initialiser of pkg (without descending into other packages' init).
func (m *Machine) ensureInit(pkg *ssa.Package) {
	if pkg == nil || m.initState[pkg] != 0 {
		return
	}
	m.initState[pkg] = 1
	for _, mem := range pkg.Members {
		if g, ok := mem.(*ssa.Global); ok {
			if _, have := m.globals[g]; !have {
				m.allocGlobal(g)
			}
		}
	}
	initFn := pkg.Func("init")
	if initFn == nil {
		return
	}
	m.P.build(pkg)
	if initFn.Blocks == nil {
		return
	}
	// run init on a private thread to completion, synchronously
	m.runNested(initFn, nil, true)
	m.initState[pkg] = 2
}

// runNested runs fn to completion on a temporary thread (used for package init).
func (m *Machine) runNested(fn *ssa.Function, args []Value, isInit bool) Value {
	saved := m.cur
	t := &Thread{ID: -1, NID: -1, Name: "nested:" + fn.String()}
	var result Value
	fr := m.newFrame(fn, args, nil)
	fr.onReturn = func(res Value) { result = res }
	t.Stack = append(t.Stack, fr)
	m.cur = t
	savedThreadsOn := m.threadsOn
	m.threadsOn = false
	defer func() {
		m.cur = saved
		m.threadsOn = savedThreadsOn
	}()
	for len(t.Stack) > 0 && t.State == tRunnable {
		if isInit {
			m.stepInit(t)
		} else {
			m.step(t)
		}
	}
	if t.Died != "" {
		panic(unsupported("panic in nested run of " + fn.String() + ": " + t.Died))
	}
	if t.State == tBlocked {
		panic(unsupported("nested run blocked in " + fn.String()))
	}
	return result
}

// stepInit executes one instruction of an init function, tolerating unsupported operations
// by skipping the instruction (the affected globals stay at their zero value and are marked poisoned).
func (m *Machine) stepInit(t *Thread) {
	f := t.top()
	if f.Fn.Name() != "init" || len(t.Stack) > 1 {
		// inside a callee of init: errors propagate to the init-level instruction
		m.step(t)
		return
	}
	ins := f.Block.Instrs[f.PC]
	if call, ok := ins.(*ssa.Call); ok {
		if callee := call.Call.StaticCallee(); callee != nil && callee.Name() == "init" && callee.Pkg != f.Fn.Pkg {
			f.PC++ // other package's init: lazy
			return
		}
	}
	depth := len(t.Stack)
	func() {
		defer func() {
			if r := recover(); r != nil {
				if _, ok := r.(unsupportedErr); ok {
					// drop callee frames, poison result
					t.Stack = t.Stack[:depth]
					f.unwinding = false
					f.panicking = false
					if v, ok := ins.(ssa.Value); ok {
						f.Regs[v] = &Opaque{Tag: "poison"}
					}
					f.PC++
					m.Res.Assumptions["init of "+f.Fn.Pkg.Pkg.Path()+" partially skipped"] = true
					return
				}
				panic(r)
			}
		}()
		m.step(t)
		for len(t.Stack) > depth && t.State == tRunnable {
			m.step(t)
		}
	}()
}

func (m *Machine) newFrame(fn *ssa.Function, args []Value, env []Value) *Frame {
	if fn.Blocks == nil {
		m.P.build(fn.Pkg)
		if fn.Blocks == nil {
			panic(unsupported("no body for " + fn.String()))
		}
	}
	f := &Frame{Fn: fn, Block: fn.Blocks[0], Regs: make(map[ssa.Value]Value, 16)}
	if len(args) != len(fn.Params) {
		panic(fmt.Sprintf("internal: arg count mismatch calling %s: %d vs %d", fn, len(args), len(fn.Params)))
	}
	for i, p := range fn.Params {
		f.Regs[p] = args[i]
	}
	for i, fv := range fn.FreeVars {
		f.Regs[fv] = env[i]
	}
	m.Res.Funcs[fn.String()]++
	return f
}

// ---- main step ----

func (m *Machine) step(t *Thread) {
	f := t.top()
	if f.unwinding {
		m.unwindStep(t, f)
		return
	}
	m.steps++
	if m.steps > m.Cfg.MaxSteps {
		m.end(endBudget, "step budget %d exhausted", m.Cfg.MaxSteps)
	}
	if m.steps&1023 == 0 && !m.Ex.Deadline.IsZero() && time.Now().After(m.Ex.Deadline) {
		m.end(endBudget, "wall-clock budget exhausted inside a path")
	}
	ins := f.Block.Instrs[f.PC]
	switch i := ins.(type) {
	case *ssa.DebugRef:
		f.PC++
	case *ssa.Alloc:
		box := m.newCells(1)
		box.E[0] = m.zero(i.Type().(*types.Pointer).Elem())
		f.Regs[i] = Ptr{box, 0}
		f.PC++
	case *ssa.UnOp:
		f.Regs[i] = m.unop(t, f, i)
		if !f.unwinding {
			f.PC++
		}
	case *ssa.BinOp:
		x, y := m.get(f, i.X), m.get(f, i.Y)
		v, perr := m.binop(i.Op, x, y, i.X.Type(), i.Y.Type(), i)
		if perr != "" {
			m.goPanic(t, perr, ins)
			return
		}
		f.Regs[i] = v
		f.PC++
	case *ssa.Call:
		m.doCall(t, f, i)
	case *ssa.ChangeInterface:
		f.Regs[i] = m.get(f, i.X)
		f.PC++
	case *ssa.ChangeType:
		f.Regs[i] = m.get(f, i.X)
		f.PC++
	case *ssa.Convert:
		f.Regs[i] = m.convert(m.get(f, i.X), i.X.Type(), i.Type(), i)
		f.PC++
	case *ssa.MultiConvert:
		f.Regs[i] = m.convert(m.get(f, i.X), i.X.Type(), i.Type(), i)
		f.PC++
	case *ssa.SliceToArrayPointer:
		s := m.get(f, i.X).(Slice)
		n := int(i.Type().(*types.Pointer).Elem().Underlying().(*types.Array).Len())
		if s.Len < n {
			m.goPanic(t, "slice to array pointer: length too short", ins)
			return
		}
		if s.Nil {
			f.Regs[i] = Ptr{}
		} else {
			// materialise an aliasing view is not expressible; copy semantics would be wrong -> unsupported unless whole container
			if s.Off == 0 && len(s.C.E) == n {
				box := m.newCells(1)
				box.E[0] = s.C
				f.Regs[i] = Ptr{box, 0}
			} else {
				panic(unsupported("SliceToArrayPointer on sub-slice"))
			}
		}
		f.PC++
	case *ssa.Defer:
		fn, args := m.prepareCall(f, &i.Call)
		f.Defers = append(f.Defers, &deferRec{fn: fn, args: args, ins: i})
		f.PC++
	case *ssa.Extract:
		f.Regs[i] = m.get(f, i.Tuple).(Tuple)[i.Index]
		f.PC++
	case *ssa.Field:
		c := m.get(f, i.X).(*Cells)
		f.Regs[i] = m.copyVal(c.E[i.Field])
		f.PC++
	case *ssa.FieldAddr:
		p := m.get(f, i.X).(Ptr)
		if p.C == nil {
			m.goPanic(t, "runtime error: invalid memory address or nil pointer dereference", ins)
			return
		}
		sc, ok := p.C.E[p.I].(*Cells)
		if !ok {
			panic(unsupported(fmt.Sprintf("FieldAddr on non-struct cell %s at %s", describe(p.C.E[p.I]), m.pos(ins))))
		}
		f.Regs[i] = Ptr{sc, i.Field}
		f.PC++
	case *ssa.Go:
		fn, args := m.prepareCall(f, &i.Call)
		m.spawn(t, fn, args, i)
		f.PC++
	case *ssa.If:
		c := m.get(f, i.Cond).(*smt.Term)
		taken := m.branch(c, "if@"+m.pos(ins))
		if taken {
			m.jump(t, f, f.Block.Succs[0])
		} else {
			m.jump(t, f, f.Block.Succs[1])
		}
	case *ssa.Jump:
		m.jump(t, f, f.Block.Succs[0])
	case *ssa.Index:
		m.doIndex(t, f, i)
	case *ssa.IndexAddr:
		m.doIndexAddr(t, f, i)
	case *ssa.Lookup:
		m.doLookup(t, f, i)
	case *ssa.MakeChan:
		sz := m.get(f, i.Size).(*smt.Term)
		if !sz.IsConst() {
			panic(unsupported("symbolic chan size"))
		}
		f.Regs[i] = m.newChan(int(sz.SInt()), i.Type().Underlying().(*types.Chan).Elem())
		f.PC++
	case *ssa.MakeClosure:
		env := make([]Value, len(i.Bindings))
		for k, b := range i.Bindings {
			env[k] = m.get(f, b)
		}
		m.nextObj++
		f.Regs[i] = &Closure{Fn: i.Fn.(*ssa.Function), Env: env, ID: m.nextObj}
		f.PC++
	case *ssa.MakeInterface:
		f.Regs[i] = Iface{T: i.X.Type(), V: m.copyVal(m.get(f, i.X))}
		f.PC++
	case *ssa.MakeMap:
		mt := i.Type().Underlying().(*types.Map)
		m.nextObj++
		f.Regs[i] = &MapObj{ID: m.nextObj, KT: mt.Key(), VT: mt.Elem()}
		f.PC++
	case *ssa.MakeSlice:
		m.doMakeSlice(t, f, i)
	case *ssa.MapUpdate:
		mp := m.get(f, i.Map).(*MapObj)
		if mp == nil {
			m.goPanic(t, "assignment to entry in nil map", ins)
			return
		}
		m.raceMap(t, mp, true, i)
		m.mapStore(mp, m.get(f, i.Key), m.get(f, i.Value))
		f.PC++
	case *ssa.Next:
		f.Regs[i] = m.doNext(f, i)
		f.PC++
	case *ssa.Range:
		f.Regs[i] = m.doRange(f, i)
		f.PC++
	case *ssa.Panic:
		v := m.get(f, i.X)
		m.goPanicVal(t, v, "panic: "+m.describePanic(v), ins)
	case *ssa.Phi:
		panic("internal: phi reached directly")
	case *ssa.Return:
		var res Value
		switch len(i.Results) {
		case 0:
		case 1:
			res = m.get(f, i.Results[0])
		default:
			tp := make(Tuple, len(i.Results))
			for k, r := range i.Results {
				tp[k] = m.get(f, r)
			}
			res = tp
		}
		m.doReturn(t, f, res)
	case *ssa.RunDefers:
		if len(f.Defers) == 0 {
			f.PC++
			return
		}
		d := f.Defers[len(f.Defers)-1]
		f.Defers = f.Defers[:len(f.Defers)-1]
		m.invoke(t, d.fn, d.args, d.ins, func(Value) {}, f)
	case *ssa.Select:
		m.doSelect(t, f, i)
	case *ssa.Send:
		m.doSend(t, f, i)
	case *ssa.Slice:
		m.doSlice(t, f, i)
	case *ssa.Store:
		switch sp := m.get(f, i.Addr).(type) {
		case SymPtr:
			v := m.get(f, i.Val).(*smt.Term)
			for k := 0; k < sp.N; k++ {
				old := sp.C.E[sp.Off+k].(*smt.Term)
				sp.C.E[sp.Off+k] = smt.Ite(smt.Eq(sp.Idx, smt.BV(64, uint64(k))), v, old)
			}
			f.PC++
			return
		case AbsPtr:
			sp.B.Arr = smt.Store(sp.B.Arr, sp.Idx, m.get(f, i.Val).(*smt.Term))
			f.PC++
			return
		}
		p := m.get(f, i.Addr).(Ptr)
		if p.C == nil {
			m.goPanic(t, "runtime error: invalid memory address or nil pointer dereference", ins)
			return
		}
		m.raceWrite(t, p, ins)
		m.storeCell(p.C, p.I, m.get(f, i.Val))
		f.PC++
	case *ssa.TypeAssert:
		m.doTypeAssert(t, f, i)
	default:
		panic(unsupported(fmt.Sprintf("instruction %T at %s", ins, m.pos(ins))))
	}
}

func (m *Machine) jump(t *Thread, f *Frame, to *ssa.BasicBlock) {
	from := f.Block
	// back-edge accounting: only loops whose continuation depended on a symbolic decision are bounded by Unwind
	if to.Index <= from.Index && to.Dominates(from) {
		if f.loops == nil {
			f.loops = map[*ssa.BasicBlock]int{}
			f.loopStamp = map[*ssa.BasicBlock]int{}
		}
		if f.loopStamp[to] != len(m.decisions) {
			f.loops[to]++
			f.loopStamp[to] = len(m.decisions)
			if f.loops[to] > m.Cfg.Unwind {
				m.end(endUnwind, "loop at %s in %s exceeded unwind bound %d", m.pos(to.Instrs[0]), f.Fn, m.Cfg.Unwind)
			}
		}
	}
	f.Prev = from
	f.Block = to
	f.PC = 0
	// phis
	edge := -1
	for k, p := range to.Preds {
		if p == from {
			edge = k
			break
		}
	}
	var vals []Value
	n := 0
	for _, ins := range to.Instrs {
		phi, ok := ins.(*ssa.Phi)
		if !ok {
			break
		}
		vals = append(vals, m.get(f, phi.Edges[edge]))
		n++
	}
	for k := 0; k < n; k++ {
		f.Regs[to.Instrs[k].(*ssa.Phi)] = vals[k]
	}
	f.PC = n
}

// ---- unary ----

func (m *Machine) unop(t *Thread, f *Frame, i *ssa.UnOp) Value {
	x := m.get(f, i.X)
	switch i.Op {
	case token.MUL: // load
		switch sp := x.(type) {
		case SymPtr:
			v, ok := selectByIndex(sp.C.E[sp.Off:sp.Off+sp.N], sp.Idx)
			if !ok {
				panic(unsupported("symbolic-index load over non-scalar cells at " + m.pos(i)))
			}
			return v
		case AbsPtr:
			return smt.Select(sp.B.Arr, sp.Idx)
		}
		p := x.(Ptr)
		if p.C == nil {
			m.goPanic(t, "runtime error: invalid memory address or nil pointer dereference", i)
			return nil
		}
		m.raceRead(t, p, i)
		v := p.C.E[p.I]
		if o, ok := v.(*Opaque); ok && o.Tag == "poison" {
			panic(unsupported("read of poisoned global at " + m.pos(i)))
		}
		return m.copyVal(v)
	case token.NOT:
		return smt.Not(x.(*smt.Term))
	case token.SUB:
		tm := x.(*smt.Term)
		if tm.Sort.K == smt.KFP {
			return smt.FNeg(tm)
		}
		return smt.Neg(tm)
	case token.XOR:
		return smt.BvNot(x.(*smt.Term))
	case token.ARROW:
		return m.doRecv(t, f, i, x)
	}
	panic(unsupported("unop " + i.Op.String()))
}

// ---- calls ----

func (m *Machine) prepareCall(f *Frame, c *ssa.CallCommon) (Value, []Value) {
	var args []Value
	var fn Value
	if c.IsInvoke() {
		recv := m.get(f, c.Value)
		ifc, ok := recv.(Iface)
		if !ok {
			panic(fmt.Sprintf("internal: invoke on non-interface %T", recv))
		}
		if ifc.T == nil {
			// nil interface method call: panics at call time; represent by a native marker
			return &Closure{Native: "nilinvoke"}, nil
		}
		if o, isO := ifc.V.(*Opaque); isO && o.Tag == "rtype" {
			args = append(args, ifc.V)
			for _, a := range c.Args {
				args = append(args, m.get(f, a))
			}
			return &Closure{Native: "rtype:" + c.Method.Name()}, args
		}
		meth := m.P.lookupMethod(ifc.T, c.Method)
		if meth == nil {
			panic(unsupported("method " + c.Method.Name() + " not found on " + ifc.T.String()))
		}
		fn = &Closure{Fn: meth}
		args = append(args, ifc.V)
	} else {
		fn = m.get(f, c.Value)
	}
	for _, a := range c.Args {
		args = append(args, m.copyVal(m.get(f, a)))
	}
	return fn, args
}

func (m *Machine) doCall(t *Thread, f *Frame, i *ssa.Call) {
	fn, args := m.prepareCall(f, &i.Call)
	m.invoke(t, fn, args, i, func(res Value) {
		f.Regs[i] = res
	}, nil)
}

// invoke calls fn. When the call completes, onRet(result) is run and the caller's PC advanced
// (unless deferOwner != nil, in which case the caller re-executes its RunDefers / unwinding step).
func (m *Machine) invoke(t *Thread, fn Value, args []Value, ins ssa.Instruction, onRet func(Value), deferOwner *Frame) {
	caller := t.top()
	noAdv := m.noAdvanceNext
	m.noAdvanceNext = false
	advance := func() {
		if deferOwner == nil && caller != nil && !noAdv {
			caller.PC++
		}
	}
	cl, ok := fn.(*Closure)
	if !ok {
		panic(fmt.Sprintf("internal: call of non-function %T at %s", fn, m.pos(ins)))
	}
	if cl == nil {
		m.goPanic(t, "runtime error: invalid memory address or nil pointer dereference (nil func call)", ins)
		return
	}
	if traceCalls && cl.Fn != nil && strings.Contains(cl.Fn.String(), "socket.io-go") && !strings.Contains(cl.Fn.Name(), "verif") {
		m.note("T%d call %s @%s", t.ID, cl.Fn.String(), m.pos(ins))
	}
	if cl.Native != "" {
		if cl.Native == "nilinvoke" {
			m.goPanic(t, "runtime error: invalid memory address or nil pointer dereference (method call on nil interface)", ins)
			return
		}
		if cl.Native == "makefunc" {
			m.callMakeFunc(t, cl, args, ins, onRet, advance, deferOwner)
			return
		}
		m.callNative(t, cl.Native, args, ins, onRet, advance, deferOwner)
		return
	}
	callee := cl.Fn
	// stubs / intrinsics
	if h := m.findStub(callee); h != nil {
		m.Res.Stubs[stubName(callee)]++
		ctx := &stubCtx{m: m, t: t, fn: callee, args: args, ins: ins, onRet: onRet, advance: advance, deferOwner: deferOwner}
		h(ctx)
		return
	}
	m.P.waitBuild()
	if callee.Blocks == nil || (callee.Pkg != nil && !m.P.isBuilt(callee.Pkg)) {
		m.P.build(callee.Pkg)
		if callee.Blocks == nil {
			panic(unsupported("call to function without body: " + callee.String() + " at " + m.pos(ins)))
		}
	}
	if !m.P.allowed(callee) {
		panic(unsupported("call to non-allowlisted function " + callee.String() + " at " + m.pos(ins)))
	}
	if len(t.Stack) > 400 {
		m.end(endBudget, "call depth exceeded at %s", callee)
	}
	nf := m.newFrame(callee, args, cl.Env)
	nf.deferOwner = deferOwner
	nf.onReturn = func(res Value) {
		onRet(res)
		advance()
	}
	t.Stack = append(t.Stack, nf)
}

func (m *Machine) doReturn(t *Thread, f *Frame, res Value) {
	t.Stack = t.Stack[:len(t.Stack)-1]
	if f.onReturn != nil {
		f.onReturn(res)
	}
	if len(t.Stack) == 0 {
		m.threadExit(t)
	}
}

// ---- panics ----

type goPanicVal struct {
	v   Value
	msg string
}

func (m *Machine) describePanic(v Value) string {
	if ifc, ok := v.(Iface); ok {
		if s, ok := ifc.V.(Str); ok {
			return showStr(s)
		}
		if ifc.T != nil {
			return ifc.T.String()
		}
	}
	return describe(v)
}

// goPanic raises a Go runtime panic with the given message in thread t.
func (m *Machine) goPanic(t *Thread, msg string, ins ssa.Instruction) {
	m.goPanicVal(t, Iface{T: m.P.runtimeErrorType(), V: &Opaque{Tag: "runtime.Error", X: msg}}, msg, ins)
}

func (m *Machine) goPanicVal(t *Thread, v Value, msg string, ins ssa.Instruction) {
	f := t.top()
	where := m.pos(ins)
	m.note("panic in T%d at %s (%s): %s", t.ID, where, f.Fn, msg)
	f.panicking = true
	f.panicVal = v
	f.panicMsg = msg + " @" + where + " in " + f.Fn.String()
	f.panicSite = f.Fn.String() + ":" + panicCategory(msg)
	f.unwinding = true
	f.recovered = false
}

// panicCategory maps a panic message to a stable category used in finding signatures.
func panicCategory(msg string) string {
	for _, k := range []string{"slice bounds out of range", "index out of range", "nil pointer dereference", "nil map", "divide by zero",
		"interface conversion", "makeslice", "close of closed channel", "close of nil channel", "send on closed channel", "unlock of unlocked",
		"negative WaitGroup", "reflect:"} {
		if strings.Contains(msg, k) {
			return k
		}
	}
	if len(msg) > 60 {
		msg = msg[:60]
	}
	return msg
}

// unwindStep runs the next deferred call of a panicking frame, or propagates the panic.
func (m *Machine) unwindStep(t *Thread, f *Frame) {
	if len(f.Defers) > 0 {
		d := f.Defers[len(f.Defers)-1]
		f.Defers = f.Defers[:len(f.Defers)-1]
		m.invoke(t, d.fn, d.args, d.ins, func(Value) {}, f)
		return
	}
	if f.recovered {
		// function returns normally to its caller: through the Recover block if any
		f.unwinding = false
		f.panicking = false
		if f.Fn.Recover != nil {
			f.Prev = f.Block
			f.Block = f.Fn.Recover
			f.PC = 0
			return
		}
		var res Value
		rt := f.Fn.Signature.Results()
		switch rt.Len() {
		case 0:
		case 1:
			res = m.zero(rt.At(0).Type())
		default:
			res = m.zero(rt)
		}
		m.doReturn(t, f, res)
		return
	}
	// propagate to caller
	if f.oncePanic != nil {
		f.oncePanic.done, f.oncePanic.running = true, false
	}
	t.Stack = t.Stack[:len(t.Stack)-1]
	if len(t.Stack) == 0 {
		t.Died = f.panicMsg
		m.threadPanicked(t, f)
		return
	}
	c := t.top()
	if f.deferOwner != nil && f.deferOwner == c {
		// a deferred call panicked: the new panic replaces the owner's
	}
	c.panicking = true
	c.panicVal = f.panicVal
	c.panicMsg = f.panicMsg
	c.panicSite = f.panicSite
	c.unwinding = true
	c.recovered = false
}

// doRecover implements the recover() builtin for frame f (a deferred function).
func (m *Machine) doRecover(t *Thread, f *Frame) Value {
	owner := f.deferOwner
	if owner != nil && owner.panicking && !owner.recovered {
		owner.recovered = true
		v := owner.panicVal
		m.note("recovered in %s: %s", f.Fn, owner.panicMsg)
		return v
	}
	return Iface{}
}
