package exec

import (
	"fmt"
	"go/types"
	"strings"

	"golang.org/x/tools/go/ssa"

	"verif/engine/smt"
)

// Value is one of:
//
//	*smt.Term            bool / integer / float scalar
//	Str                  string (concrete length, symbolic bytes)
//	Slice                slice header over a *Cells container
//	AbsSlice             byte slice of symbolic length (contents = SMT array)
//	Ptr                  address of one cell in a *Cells container (C==nil: nil pointer)
//	*Cells               struct or array value (fields / elements)
//	Iface                interface value (T==nil: nil interface)
//	*Closure             function value (nil pointer: nil func)
//	*MapObj              map (nil pointer: nil map)
//	*ChanObj             channel (nil pointer: nil chan)
//	Tuple                multiple results
//	*Opaque              tagged opaque value produced by a stub
type Value interface{}

type Str struct{ B []*smt.Term }

type Cells struct {
	E  []Value
	ID int
	// Tag distinguishes executor-native objects embedded by address (mutex, once ...)
}

type Ptr struct {
	C *Cells
	I int
}

// SymPtr is the address of C.E[Off+Idx] for a symbolic Idx in [0,N) over scalar cells (no forking: loads are ite-chains).
type SymPtr struct {
	C   *Cells
	Off int
	N   int
	Idx *smt.Term
}

// AbsPtr is the address of one byte of an abstract buffer.
type AbsPtr struct {
	B   *AbsBuf
	Idx *smt.Term
}

type Slice struct {
	C   *Cells
	Off int
	Len int
	Cap int
	Nil bool
}

// AbsBuf is the backing store of abstract byte slices.
type AbsBuf struct {
	Arr *smt.Term
	ID  int
}

type AbsSlice struct {
	B   *AbsBuf
	Off *smt.Term // BV64
	Len *smt.Term // BV64
	Cap *smt.Term // BV64
}

type Iface struct {
	T types.Type
	V Value
}

type Closure struct {
	Fn  *ssa.Function
	Env []Value
	ID  int
	// Native is set for functions implemented by the executor (harness intrinsics passed as values).
	Native string
}

type MapEntry struct {
	K    Value
	V    Value
	Live bool
}

type MapObj struct {
	E  []*MapEntry
	ID int
	KT types.Type
	VT types.Type
}

type Tuple []Value

type Opaque struct {
	Tag string
	ID  int
	X   interface{}
}

func mkStr(s string) Str {
	b := make([]*smt.Term, len(s))
	for i := 0; i < len(s); i++ {
		b[i] = smt.BV(8, uint64(s[i]))
	}
	return Str{b}
}

// concreteStr returns the Go string if every byte is constant.
func concreteStr(s Str) (string, bool) {
	var sb strings.Builder
	for _, b := range s.B {
		if !b.IsConst() {
			return "", false
		}
		sb.WriteByte(byte(b.U))
	}
	return sb.String(), true
}

func showStr(s Str) string {
	var sb strings.Builder
	for _, b := range s.B {
		if b.IsConst() {
			c := byte(b.U)
			if c >= 32 && c < 127 {
				sb.WriteByte(c)
			} else {
				fmt.Fprintf(&sb, "\\x%02x", c)
			}
		} else {
			sb.WriteString("<?>")
		}
	}
	return sb.String()
}

func bvWidth(t types.Type) (w int, signed bool, ok bool) {
	b, isB := t.Underlying().(*types.Basic)
	if !isB {
		return 0, false, false
	}
	switch b.Kind() {
	case types.Int8:
		return 8, true, true
	case types.Int16:
		return 16, true, true
	case types.Int32, types.UntypedRune:
		return 32, true, true
	case types.Int64, types.Int, types.UntypedInt:
		return 64, true, true
	case types.Uint8:
		return 8, false, true
	case types.Uint16:
		return 16, false, true
	case types.Uint32:
		return 32, false, true
	case types.Uint64, types.Uint, types.Uintptr:
		return 64, false, true
	}
	return 0, false, false
}

func isFloat(t types.Type) (int, bool) {
	b, isB := t.Underlying().(*types.Basic)
	if !isB {
		return 0, false
	}
	switch b.Kind() {
	case types.Float32:
		return 32, true
	case types.Float64, types.UntypedFloat:
		return 64, true
	}
	return 0, false
}

func isString(t types.Type) bool {
	b, ok := t.Underlying().(*types.Basic)
	return ok && b.Info()&types.IsString != 0
}

func isBool(t types.Type) bool {
	b, ok := t.Underlying().(*types.Basic)
	return ok && b.Info()&types.IsBoolean != 0
}

// zero builds the zero value of a type.
func (m *Machine) zero(t types.Type) Value {
	switch u := t.Underlying().(type) {
	case *types.Basic:
		if w, _, ok := bvWidth(t); ok {
			return smt.BV(w, 0)
		}
		if w, ok := isFloat(t); ok {
			return smt.FPBits(w, 0)
		}
		if isString(t) {
			return Str{}
		}
		if isBool(t) {
			return smt.False
		}
		if u.Kind() == types.UnsafePointer {
			return Ptr{}
		}
		if u.Kind() == types.UntypedNil {
			return nil
		}
		if u.Kind() == types.Complex128 || u.Kind() == types.Complex64 {
			return &Opaque{Tag: "complex"}
		}
		panic(unsupported("zero of basic type " + t.String()))
	case *types.Pointer:
		return Ptr{}
	case *types.Slice:
		return Slice{Nil: true}
	case *types.Map:
		return (*MapObj)(nil)
	case *types.Chan:
		return (*ChanObj)(nil)
	case *types.Signature:
		return (*Closure)(nil)
	case *types.Interface:
		return Iface{}
	case *types.Struct:
		c := m.newCells(u.NumFields())
		for i := 0; i < u.NumFields(); i++ {
			c.E[i] = m.zero(u.Field(i).Type())
		}
		return c
	case *types.Array:
		n := int(u.Len())
		if n > 1<<16 {
			panic(unsupported("array too large"))
		}
		c := m.newCells(n)
		if n > 0 {
			// scalars can share the zero term; composites need distinct copies
			z := m.zero(u.Elem())
			c.E[0] = z
			for i := 1; i < n; i++ {
				c.E[i] = m.copyVal(z)
			}
		}
		return c
	case *types.Tuple:
		tp := make(Tuple, u.Len())
		for i := 0; i < u.Len(); i++ {
			tp[i] = m.zero(u.At(i).Type())
		}
		return tp
	}
	panic(unsupported("zero of type " + t.String()))
}

func (m *Machine) newCells(n int) *Cells {
	m.nextObj++
	return &Cells{E: make([]Value, n), ID: m.nextObj}
}

// copyVal deep-copies composite values (struct/array); everything else is immutable or a reference.
func (m *Machine) copyVal(v Value) Value {
	if c, ok := v.(*Cells); ok && c != nil {
		n := m.newCells(len(c.E))
		for i, e := range c.E {
			n.E[i] = m.copyVal(e)
		}
		return n
	}
	if t, ok := v.(Tuple); ok {
		n := make(Tuple, len(t))
		for i, e := range t {
			n[i] = m.copyVal(e)
		}
		return n
	}
	return v
}

// storeCell writes v into container c at index i, preserving the identity of nested containers.
func (m *Machine) storeCell(c *Cells, i int, v Value) {
	if old, ok := c.E[i].(*Cells); ok && old != nil {
		if nv, ok2 := v.(*Cells); ok2 && nv != nil && len(nv.E) == len(old.E) {
			if nv == old {
				return
			}
			for j := range nv.E {
				m.storeCell(old, j, nv.E[j])
			}
			return
		}
	}
	c.E[i] = m.copyVal(v)
}

type unsupportedErr struct{ msg string }

func (u unsupportedErr) Error() string { return "unsupported: " + u.msg }

func unsupported(msg string) unsupportedErr { return unsupportedErr{msg} }

func describe(v Value) string {
	switch x := v.(type) {
	case nil:
		return "nil"
	case *smt.Term:
		if x.IsConst() {
			if x.Sort.K == smt.KBV {
				return fmt.Sprintf("%d", x.U)
			}
			return x.ConstString()
		}
		if x.Size() < 12 {
			return x.String()
		}
		return "<term>"
	case Str:
		return "\"" + showStr(x) + "\""
	case Slice:
		if x.Nil {
			return "[]nil"
		}
		var parts []string
		for i := 0; i < x.Len && i < 16; i++ {
			parts = append(parts, describe(x.C.E[x.Off+i]))
		}
		return "[" + strings.Join(parts, " ") + "]"
	case Ptr:
		if x.C == nil {
			return "nilptr"
		}
		return fmt.Sprintf("&obj%d[%d]", x.C.ID, x.I)
	case *Cells:
		var parts []string
		for i, e := range x.E {
			if i > 8 {
				parts = append(parts, "...")
				break
			}
			parts = append(parts, describe(e))
		}
		return "{" + strings.Join(parts, " ") + "}"
	case Iface:
		if x.T == nil {
			return "nil-iface"
		}
		return "iface(" + x.T.String() + ":" + describe(x.V) + ")"
	case *Closure:
		if x == nil {
			return "nilfunc"
		}
		if x.Fn != nil {
			return "func " + x.Fn.String()
		}
		return "func native " + x.Native
	case *MapObj:
		if x == nil {
			return "nilmap"
		}
		return fmt.Sprintf("map#%d(%d)", x.ID, len(x.E))
	case Tuple:
		var parts []string
		for _, e := range x {
			parts = append(parts, describe(e))
		}
		return "(" + strings.Join(parts, ", ") + ")"
	case *Opaque:
		return "opaque:" + x.Tag
	case AbsSlice:
		return "abs[]byte"
	case *ChanObj:
		if x == nil {
			return "nilchan"
		}
		return fmt.Sprintf("chan#%d", x.ID)
	}
	return fmt.Sprintf("%T", v)
}
