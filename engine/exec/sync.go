package exec

import (
	"fmt"
	"go/token"
	"go/types"
	"strings"

	"golang.org/x/tools/go/ssa"

	"verif/engine/smt"
)

type syncObj struct {
	kind    string
	locked  bool
	owner   int
	readers int
	rOwners map[int]int
	done    bool // once
	running bool // once: f in progress
	count   int  // waitgroup
	clock   []int
	val     Value // atomic.Value
	lockPos string
}

type ChanObj struct {
	ID     int
	Cap    int
	Buf    []Value
	Closed bool
	Timer  bool
	Elem   types.Type
	clock  []int
	recvq  []*waitRec
	sendq  []*waitRec
	// deadline for timer channels (virtual time), nil if not a timer
	Deadline *smt.Term
	Fired    bool
}

type selCase struct {
	ch   *ChanObj
	send bool
	val  Value
}

type waitRec struct {
	t     *Thread
	kind  string // chan | lock | rlock | once | wg | quiesce | sleep
	cases []selCase
	done  bool
	idx   int
	val   Value
	ok    bool
	check func() bool // for non-channel waits: can proceed now?
	what  string
	ins   ssa.Instruction
	timer *ChanObj // time.Sleep under the discrete-event clock: the timer this thread sleeps on
}

func (m *Machine) newChan(capacity int, elem types.Type) *ChanObj {
	m.nextObj++
	return &ChanObj{ID: m.nextObj, Cap: capacity, Elem: elem}
}

// ---- vector clocks ----

func vcJoin(a, b []int) []int {
	if len(b) > len(a) {
		a = append(a, make([]int, len(b)-len(a))...)
	}
	for i, v := range b {
		if v > a[i] {
			a[i] = v
		}
	}
	return a
}

func (m *Machine) acquire(t *Thread, clock []int) {
	if t.ID < 0 {
		return
	}
	t.clock = vcJoin(t.clock, clock)
}

func (m *Machine) release(t *Thread, clock *[]int) {
	if t.ID < 0 {
		return
	}
	*clock = vcJoin(*clock, t.clock)
	m.tick(t)
}

func (m *Machine) tick(t *Thread) {
	for len(t.clock) <= t.ID {
		t.clock = append(t.clock, 0)
	}
	t.clock[t.ID]++
}

type raceKey struct {
	c  *Cells
	i  int
	mp *MapObj
}

type accessRec struct {
	wT    int
	wC    int
	wPos  string
	reads map[int]int
	rPos  map[int]string
}

func (m *Machine) hb(tid, clk int, t *Thread) bool {
	if tid == t.ID {
		return true
	}
	if tid < len(t.clock) && t.clock[tid] >= clk {
		return true
	}
	return false
}

func (m *Machine) raceOn() bool { return m.raceDetect && len(m.threads) > 1 }

func (m *Machine) raceAccess(t *Thread, k raceKey, write bool, ins ssa.Instruction) {
	if t.ID < 0 {
		return
	}
	a := m.access[k]
	if a == nil {
		a = &accessRec{wT: -1, reads: map[int]int{}, rPos: map[int]string{}}
		m.access[k] = a
	}
	me := 0
	if t.ID < len(t.clock) {
		me = t.clock[t.ID]
	}
	pos := m.pos(ins)
	if a.wT >= 0 && !m.hb(a.wT, a.wC, t) {
		m.reportRace(t, pos, a.wPos, "write", write)
	}
	if write {
		for rt, rc := range a.reads {
			if !m.hb(rt, rc, t) {
				m.reportRace(t, pos, a.rPos[rt], "read", write)
			}
		}
		a.wT, a.wC, a.wPos = t.ID, me, pos
		a.reads = map[int]int{}
		a.rPos = map[int]string{}
	} else {
		a.reads[t.ID] = me
		a.rPos[t.ID] = pos
	}
}

func (m *Machine) raceRead(t *Thread, p Ptr, ins ssa.Instruction) {
	if m.raceOn() {
		m.raceAccess(t, raceKey{c: p.C, i: p.I}, false, ins)
	}
}

func (m *Machine) raceWrite(t *Thread, p Ptr, ins ssa.Instruction) {
	if m.raceOn() {
		m.raceAccess(t, raceKey{c: p.C, i: p.I}, true, ins)
	}
}

func (m *Machine) raceMap(t *Thread, mp *MapObj, write bool, ins ssa.Instruction) {
	if m.raceOn() && mp != nil {
		m.raceAccess(t, raceKey{mp: mp}, write, ins)
	}
}

func (m *Machine) reportRace(t *Thread, pos, otherPos, otherKind string, write bool) {
	kind := "read"
	if write {
		kind = "write"
	}
	// recording stand-ins in harness files replace components that are thread-safe in production (Engine.IO socket,
	// encoder); the executor runs them atomically between synchronisation points, so races inside them are not findings
	if strings.HasPrefix(pos, "zz_verif_") && strings.HasPrefix(otherPos, "zz_verif_") {
		return
	}
	a, b := pos, otherPos
	if b < a {
		a, b = b, a
	}
	site := fmt.Sprintf("race:%s|%s", a, b)
	m.violation("race", fmt.Sprintf("data race: %s at %s (T%d) unordered with %s at %s", kind, pos, t.ID, otherKind, otherPos), site, nil)
}

// ---- threads ----

func (m *Machine) spawn(parent *Thread, fn Value, args []Value, ins ssa.Instruction) {
	t := &Thread{ID: len(m.threads), HeldMu: map[Ptr]int{}, NID: -1}
	if m.P.inHarnessPkg(ins) {
		m.nextNID++
		t.NID = m.nextNID
	}
	if parent != nil && parent.ID >= 0 {
		t.clock = append([]int(nil), parent.clock...)
		m.tick(parent)
	}
	m.tick(t)
	m.threads = append(m.threads, t)
	m.Res.Threads = len(m.threads)
	t.Name = fmt.Sprintf("go@%s", m.pos(ins))
	// bootstrap frame: invoke fn from an empty stack
	m.startThread(t, fn, args, ins)
}

func (m *Machine) startThread(t *Thread, fn Value, args []Value, ins ssa.Instruction) {
	saved := m.cur
	m.cur = t
	defer func() { m.cur = saved }()
	m.invoke(t, fn, args, ins, func(Value) {}, nil)
	if len(t.Stack) == 0 && t.State == tRunnable {
		t.State = tDone
	}
}

func (m *Machine) threadExit(t *Thread) {
	t.State = tDone
	if t.ID >= 0 {
		m.release(t, &t.clock)
		for p, n := range t.HeldMu {
			if n > 0 {
				_ = p
			}
		}
	}
}

func (m *Machine) threadPanicked(t *Thread, f *Frame) {
	t.State = tDone
	if t.ID < 0 {
		return
	}
	who := "goroutine"
	if t.ID == 0 {
		who = "harness"
	}
	site := "panic:" + f.panicSite
	m.violation("panic", fmt.Sprintf("panic escapes %s T%d: %s", who, t.ID, f.panicMsg), site, nil)
	if t.ID == 0 {
		m.end(endOK, "harness panicked")
	}
}

// enabled reports whether t can take a step now.
func (m *Machine) enabled(t *Thread) bool {
	switch t.State {
	case tRunnable:
		return true
	case tBlocked:
		w := t.Wait
		if w == nil {
			return false
		}
		if w.done {
			return true
		}
		if w.check != nil {
			return w.check()
		}
		if w.kind == "chan" {
			for _, c := range w.cases {
				if c.ch != nil && c.ch.Timer && c.ch.Fired {
					return true
				}
			}
		}
		return false
	}
	return false
}

func (m *Machine) enabledThreads() []*Thread {
	var out []*Thread
	for _, t := range m.threads {
		if m.enabled(t) {
			out = append(out, t)
		}
	}
	return out
}

// isVisible reports whether the next instruction of t is a scheduling point.
func (m *Machine) isVisible(t *Thread) bool {
	f := t.top()
	if f == nil || f.unwinding {
		return false
	}
	ins := f.Block.Instrs[f.PC]
	switch i := ins.(type) {
	case *ssa.Send, *ssa.Select:
		return true
	case *ssa.UnOp:
		return i.Op == token.ARROW
	case *ssa.Call:
		return m.visibleCall(f, &i.Call)
	case *ssa.Defer:
		return false
	case *ssa.RunDefers:
		if n := len(f.Defers); n > 0 {
			if cl, ok := f.Defers[n-1].fn.(*Closure); ok && cl != nil && cl.Fn != nil {
				return visibleNames[cl.Fn.String()]
			}
		}
	}
	return false
}

var visibleNames = map[string]bool{
	"(*sync.Mutex).Lock":         true,
	"(*sync.RWMutex).Lock":       true,
	"(*sync.RWMutex).RLock":      true,
	"(*sync.Once).Do":            true,
	"(*sync.WaitGroup).Wait":     true,
	"(*sync/atomic.Value).Load":  true,
	"(*sync/atomic.Value).Store": true,
	"time.Sleep":                 true,
}

func (m *Machine) visibleCall(f *Frame, c *ssa.CallCommon) bool {
	if c.IsInvoke() {
		return false
	}
	switch v := c.Value.(type) {
	case *ssa.Function:
		if visibleNames[v.String()] {
			return true
		}
		n := v.Name()
		if n == "verifYield" {
			return true
		}
	case *ssa.Builtin:
		return v.Name() == "close"
	}
	return false
}

// schedule picks the thread to run next. Returns nil at quiescence.
func (m *Machine) schedule() *Thread {
	cur := m.cur
	en := m.enabledThreads()
	if len(en) == 0 {
		return nil
	}
	if !m.threadsOn {
		// cooperative: keep running current thread while enabled, else lowest-id enabled thread; verifYield hands over
		// to the next enabled thread (round robin)
		if cur != nil && cur.yielded {
			cur.yielded = false
			for _, t := range en {
				if t.ID > cur.ID {
					return t
				}
			}
			for _, t := range en {
				if t != cur {
					return t
				}
			}
		}
		if cur != nil && cur.ID >= 0 && m.enabled(cur) {
			return cur
		}
		return en[0]
	}
	curEnabled := cur != nil && m.enabled(cur)
	if curEnabled && (!m.isVisible(cur) || cur.granted) {
		return cur
	}
	// decision point
	if len(en) == 1 {
		en[0].granted = true
		return en[0]
	}
	if curEnabled && m.Cfg.Preempt >= 0 && m.preempts >= m.Cfg.Preempt {
		cur.granted = true
		return cur
	}
	m.Res.VisibleOps++
	if m.Res.VisibleOps > m.Cfg.MaxVisOps {
		m.end(endBudget, "visible-operation bound %d exceeded", m.Cfg.MaxVisOps)
	}
	// put the current thread first so the default path is preemption-free
	if curEnabled {
		for k, t := range en {
			if t == cur {
				en[0], en[k] = en[k], en[0]
				break
			}
		}
	}
	pick := m.choose(len(en), nil, false, "sched")
	t := en[pick]
	if curEnabled && t != cur {
		m.preempts++
	}
	t.granted = true
	return t
}

// run drives all threads until quiescence.
func (m *Machine) run() {
	for {
		t := m.schedule()
		if t == nil {
			if m.quiescent() {
				continue
			}
			return
		}
		m.cur = t
		if t.State == tBlocked {
			t.State = tRunnable
			if t.Wait != nil && t.Wait.kind != "chan" && t.Wait.kind != "quiesce" {
				t.Wait = nil
			}
		}
		vis := t.granted
		if t.NID >= 0 && !t.opRecorded && m.recordable(t) {
			m.sched = append(m.sched, t.NID)
			if f := t.top(); f != nil {
				m.schedPos = append(m.schedPos, fmt.Sprintf("T%d %s", t.NID, m.pos(f.Block.Instrs[f.PC])))
			}
			t.opRecorded = true
		}
		m.step(t)
		if t.State != tBlocked {
			t.opRecorded = false
		}
		if vis {
			t.granted = false
		}
	}
}

// fireNextTimer implements the discrete-event step: nothing can run, so virtual time jumps to the earliest pending
// timer deadline (which timer that is may depend on symbolic durations: fork, with the ordering as path constraint).
func (m *Machine) fireNextTimer() bool {
	if !m.timersOn {
		return false
	}
	var pend []*ChanObj
	for _, ch := range m.timers {
		if !ch.Fired && m.timerAwaited(ch) {
			pend = append(pend, ch)
		}
	}
	if len(pend) == 0 {
		return false
	}
	pick := 0
	if len(pend) > 1 {
		conds := make([]*smt.Term, len(pend))
		for i, a := range pend {
			c := smt.True
			for j, b := range pend {
				if i != j {
					c = smt.And(c, smt.Sle(a.Deadline, b.Deadline))
				}
			}
			conds[i] = c
		}
		pick = m.choose(len(pend), conds, false, "next-timer")
	}
	ch := pend[pick]
	// time does not run backwards: if the clock is already past the deadline the timer simply fires now
	late := smt.Slt(ch.Deadline, m.clock())
	if !m.branch(late, "timer-late") {
		m.now = ch.Deadline
	}
	m.fireTimer(ch)
	return true
}

// fireTimer marks a timer channel as fired and, like a send on it, completes the receive of a goroutine parked on it at
// that very moment: an event that happens later (a close of another channel of the same select, say) cannot undo it.
func (m *Machine) fireTimer(ch *ChanObj) {
	ch.Fired = true
	ch.recvq = pruneWaiters(ch.recvq)
	if len(ch.recvq) == 0 {
		return
	}
	w := ch.recvq[0]
	ch.recvq = ch.recvq[1:]
	for k, wc := range w.cases {
		if wc.ch == ch && !wc.send {
			w.done, w.idx, w.val, w.ok = true, k, &Opaque{Tag: "time.Time"}, true
			break
		}
	}
}

// timerAwaited reports whether some parked thread is waiting on the timer channel.
func (m *Machine) timerAwaited(ch *ChanObj) bool {
	for _, t := range m.threads {
		if t.State == tBlocked && t.Wait != nil && t.Wait.timer == ch {
			return true
		}
		if t.State == tBlocked && t.Wait != nil && t.Wait.kind == "chan" && !t.Wait.done {
			for _, c := range t.Wait.cases {
				if c.ch == ch {
					return true
				}
			}
		}
	}
	return false
}

// checkTimers is called whenever virtual time advances: every pending timer whose deadline may have passed fires
// (forking on the comparison when it is symbolic).
func (m *Machine) checkTimers() {
	if !m.timersOn {
		return
	}
	for _, ch := range m.timers {
		if ch.Fired {
			continue
		}
		passed := smt.Sle(ch.Deadline, m.clock())
		if m.branch(passed, "timer-passed") {
			m.fireTimer(ch)
		}
	}
}

// quiescent handles the state where no thread is enabled. Returns true if execution can continue.
func (m *Machine) quiescent() bool {
	main := m.threads[0]
	// verifSettle: the harness only waits for the goroutines to park; virtual time must not jump meanwhile
	if main.State == tBlocked && main.Wait != nil && main.Wait.kind == "quiesce" && main.Wait.what == "verifSettle" {
		main.Wait.done = true
		for _, t := range m.threads {
			if t != main {
				main.clock = vcJoin(main.clock, t.clock)
			}
		}
		return true
	}
	if m.fireNextTimer() {
		return true
	}
	if main.State == tBlocked && main.Wait != nil && main.Wait.kind == "quiesce" {
		main.Wait.done = true
		// the harness observes the quiescent state: everything that happened so far happens-before its next step
		for _, t := range m.threads {
			if t != main {
				main.clock = vcJoin(main.clock, t.clock)
			}
		}
		return true
	}
	if main.State == tBlocked {
		w := main.Wait
		m.violation("deadlock", fmt.Sprintf("harness thread blocked forever on %s (%s)", w.kind, w.what), "deadlock:"+w.what, nil)
	}
	return false
}

// block parks t on w; the instruction will be re-executed when the thread is resumed.
func (m *Machine) block(t *Thread, w *waitRec) {
	w.t = t
	t.State = tBlocked
	t.Wait = w
}

// ---- mutexes etc. ----

func (m *Machine) syncAt(p Ptr, kind string) *syncObj {
	if p.C == nil {
		panic(unsupported("sync op on nil " + kind))
	}
	s := m.syncObjs[p]
	if s == nil {
		s = &syncObj{kind: kind, owner: -1, rOwners: map[int]int{}}
		m.syncObjs[p] = s
	}
	return s
}

func (m *Machine) muLock(c *stubCtx, write bool, rw bool) {
	p := c.args[0].(Ptr)
	kind := "mutex"
	if rw {
		kind = "rwmutex"
	}
	s := m.syncAt(p, kind)
	t := c.t
	can := func() bool {
		if write {
			return !s.locked && s.readers == 0
		}
		return !s.locked
	}
	if !can() {
		what := fmt.Sprintf("%s.Lock@%s", kind, m.pos(c.ins))
		if s.locked && s.owner == t.ID || (write && s.rOwners[t.ID] > 0) {
			what += " (self-deadlock: already held by this goroutine since " + s.lockPos + ")"
		}
		m.block(t, &waitRec{kind: "lock", check: can, what: what, ins: c.ins})
		return
	}
	if write {
		s.locked = true
		s.owner = t.ID
		s.lockPos = m.pos(c.ins)
	} else {
		s.readers++
		s.rOwners[t.ID]++
	}
	t.HeldMu[p]++
	m.acquire(t, s.clock)
	c.ret(nil)
}

func (m *Machine) muUnlock(c *stubCtx, write bool, rw bool) {
	p := c.args[0].(Ptr)
	s := m.syncAt(p, "mutex")
	t := c.t
	if write {
		if !s.locked {
			m.goPanicVal(t, Iface{T: types.Typ[types.String], V: mkStr("sync: unlock of unlocked mutex")}, "fatal error: sync: unlock of unlocked mutex", c.ins)
			return
		}
		s.locked = false
		s.owner = -1
	} else {
		if s.readers == 0 {
			m.goPanicVal(t, Iface{T: types.Typ[types.String], V: mkStr("sync: RUnlock of unlocked RWMutex")}, "fatal error: sync: RUnlock of unlocked RWMutex", c.ins)
			return
		}
		s.readers--
		s.rOwners[t.ID]--
	}
	t.HeldMu[p]--
	m.release(t, &s.clock)
	c.ret(nil)
}

// heldLocks lists mutexes currently locked (for "mutex left held" assertions).
func (m *Machine) heldLocks() []string {
	var out []string
	for _, s := range m.syncObjs {
		if (s.kind == "mutex" || s.kind == "rwmutex") && (s.locked || s.readers > 0) {
			out = append(out, s.lockPos)
		}
	}
	return out
}

func (m *Machine) onceDo(c *stubCtx) {
	p := c.args[0].(Ptr)
	s := m.syncAt(p, "once")
	t := c.t
	if s.done {
		m.acquire(t, s.clock)
		c.ret(nil)
		return
	}
	if s.running {
		what := "once.Do@" + m.pos(c.ins)
		if s.owner == t.ID {
			what += " (self-deadlock: re-entrant Do)"
		}
		m.block(t, &waitRec{kind: "once", check: func() bool { return s.done }, what: what, ins: c.ins})
		return
	}
	s.running = true
	s.owner = t.ID
	fn := c.args[1]
	// run f; when it returns (or panics), mark done
	caller := t.top()
	m.invoke(t, fn, nil, c.ins, func(Value) {
		s.done = true
		s.running = false
		m.release(t, &s.clock)
		c.onRet(nil)
	}, c.deferOwner)
	// if f panics the Once is still marked done (Go semantics): handled by markOncePanic in unwinding
	if nf := t.top(); nf != caller && nf != nil {
		nf.oncePanic = s
	} else if c.deferOwner == nil {
		// native callee completed synchronously: invoke already advanced
	}
}

func (m *Machine) wgAdd(c *stubCtx, delta int) {
	p := c.args[0].(Ptr)
	s := m.syncAt(p, "wg")
	s.count += delta
	if s.count < 0 {
		m.goPanicVal(c.t, Iface{T: types.Typ[types.String], V: mkStr("sync: negative WaitGroup counter")}, "sync: negative WaitGroup counter", c.ins)
		return
	}
	if delta < 0 {
		m.release(c.t, &s.clock)
	}
	c.ret(nil)
}

func (m *Machine) wgWait(c *stubCtx) {
	p := c.args[0].(Ptr)
	s := m.syncAt(p, "wg")
	if s.count > 0 {
		m.block(c.t, &waitRec{kind: "wg", check: func() bool { return s.count == 0 }, what: "WaitGroup.Wait@" + m.pos(c.ins), ins: c.ins})
		return
	}
	m.acquire(c.t, s.clock)
	c.ret(nil)
}

// ---- channels ----

func (m *Machine) chanClose(t *Thread, ch *ChanObj, ins ssa.Instruction) bool {
	if ch == nil {
		m.goPanicVal(t, Iface{T: types.Typ[types.String], V: mkStr("close of nil channel")}, "close of nil channel", ins)
		return false
	}
	if ch.Closed {
		m.goPanicVal(t, Iface{T: types.Typ[types.String], V: mkStr("close of closed channel")}, "close of closed channel", ins)
		return false
	}
	ch.Closed = true
	m.release(t, &ch.clock)
	// wake all parked receivers
	for _, w := range ch.recvq {
		if w.done {
			continue
		}
		for k, c := range w.cases {
			if c.ch == ch && !c.send {
				w.done, w.idx, w.val, w.ok = true, k, m.zero(ch.Elem), false
				m.acquire(w.t, ch.clock)
				break
			}
		}
	}
	ch.recvq = nil
	// parked senders will panic when resumed
	for _, w := range ch.sendq {
		if !w.done {
			for k, c := range w.cases {
				if c.ch == ch && c.send {
					w.done, w.idx, w.ok = true, k, false
					w.val = &Opaque{Tag: "send-on-closed"}
					break
				}
			}
		}
	}
	ch.sendq = nil
	return true
}

func pruneWaiters(q []*waitRec) []*waitRec {
	out := q[:0]
	for _, w := range q {
		if !w.done {
			out = append(out, w)
		}
	}
	return out
}

// caseReady reports whether a select case can complete immediately.
func (m *Machine) caseReady(c selCase) bool {
	ch := c.ch
	if ch == nil {
		return false
	}
	if c.send {
		if ch.Closed {
			return true // will panic
		}
		ch.recvq = pruneWaiters(ch.recvq)
		return len(ch.recvq) > 0 || len(ch.Buf) < ch.Cap
	}
	if ch.Timer {
		return ch.Fired
	}
	ch.sendq = pruneWaiters(ch.sendq)
	return len(ch.Buf) > 0 || ch.Closed || len(ch.sendq) > 0
}

// completeCase performs the communication of a ready case. Returns (value, ok, panicMsg).
func (m *Machine) completeCase(t *Thread, c selCase) (Value, bool, string) {
	ch := c.ch
	if c.send {
		if ch.Closed {
			return nil, false, "send on closed channel"
		}
		if len(ch.recvq) > 0 {
			w := ch.recvq[0]
			ch.recvq = ch.recvq[1:]
			for k, wc := range w.cases {
				if wc.ch == ch && !wc.send {
					w.done, w.idx, w.val, w.ok = true, k, m.copyVal(c.val), true
					break
				}
			}
			// sender -> receiver happens-before
			m.release(t, &ch.clock)
			m.acquire(w.t, ch.clock)
			// and (unbuffered) receiver -> sender completion
			return nil, true, ""
		}
		ch.Buf = append(ch.Buf, m.copyVal(c.val))
		m.release(t, &ch.clock)
		return nil, true, ""
	}
	if ch.Timer {
		return &Opaque{Tag: "time.Time"}, true, ""
	}
	if len(ch.Buf) > 0 {
		v := ch.Buf[0]
		ch.Buf = ch.Buf[1:]
		m.acquire(t, ch.clock)
		// a parked sender can now move its value into the buffer
		ch.sendq = pruneWaiters(ch.sendq)
		if len(ch.sendq) > 0 {
			w := ch.sendq[0]
			ch.sendq = ch.sendq[1:]
			for k, wc := range w.cases {
				if wc.ch == ch && wc.send {
					ch.Buf = append(ch.Buf, m.copyVal(wc.val))
					w.done, w.idx, w.ok = true, k, true
					break
				}
			}
		}
		return v, true, ""
	}
	if len(ch.sendq) > 0 {
		w := ch.sendq[0]
		ch.sendq = ch.sendq[1:]
		var v Value
		for k, wc := range w.cases {
			if wc.ch == ch && wc.send {
				v = m.copyVal(wc.val)
				w.done, w.idx, w.ok = true, k, true
				break
			}
		}
		m.release(w.t, &ch.clock)
		m.acquire(t, ch.clock)
		return v, true, ""
	}
	if ch.Closed {
		m.acquire(t, ch.clock)
		return m.zero(ch.Elem), false, ""
	}
	panic("internal: completeCase on non-ready case")
}

// selectOp implements blocking/non-blocking select over cases. It returns (idx, val, ok, completed).
// completed=false means the thread was parked (or a panic was raised).
func (m *Machine) selectOp(t *Thread, cases []selCase, blocking bool, ins ssa.Instruction) (int, Value, bool, bool) {
	// resumed after being parked?
	if w := t.Wait; w != nil && w.ins == ins && w.kind == "chan" {
		t.Wait = nil
		if w.done {
			if o, isO := w.val.(*Opaque); isO && o.Tag == "send-on-closed" {
				m.goPanicVal(t, Iface{T: types.Typ[types.String], V: mkStr("send on closed channel")}, "send on closed channel", ins)
				return 0, nil, false, false
			}
			return w.idx, w.val, w.ok, true
		}
		// woken without completion (timer firing): remove from queues, fall through to re-evaluate
		for _, c := range w.cases {
			if c.ch != nil {
				w.done = true
				c.ch.recvq = pruneWaiters(c.ch.recvq)
				c.ch.sendq = pruneWaiters(c.ch.sendq)
			}
		}
	}
	var ready []int
	for k, c := range cases {
		if m.caseReady(c) {
			ready = append(ready, k)
		}
	}
	if len(ready) > 0 {
		pick := ready[0]
		if len(ready) > 1 {
			pick = ready[m.choose(len(ready), nil, false, "select@"+m.pos(ins))]
		}
		v, ok, pmsg := m.completeCase(t, cases[pick])
		if pmsg != "" {
			m.goPanicVal(t, Iface{T: types.Typ[types.String], V: mkStr(pmsg)}, pmsg, ins)
			return 0, nil, false, false
		}
		return pick, v, ok, true
	}
	if !blocking {
		return -1, nil, false, true
	}
	// park
	w := &waitRec{kind: "chan", cases: cases, ins: ins, what: "chan op@" + m.pos(ins)}
	for _, c := range cases {
		if c.ch == nil {
			continue
		}
		if c.send {
			c.ch.sendq = append(c.ch.sendq, w)
		} else {
			c.ch.recvq = append(c.ch.recvq, w)
		}
	}
	m.block(t, w)
	return 0, nil, false, false
}

func (m *Machine) doSend(t *Thread, f *Frame, i *ssa.Send) {
	ch := m.get(f, i.Chan).(*ChanObj)
	if ch == nil {
		m.block(t, &waitRec{kind: "nilchan", what: "send on nil chan@" + m.pos(i), ins: i})
		return
	}
	_, _, _, done := m.selectOp(t, []selCase{{ch: ch, send: true, val: m.get(f, i.X)}}, true, i)
	if done {
		f.PC++
	}
}

func (m *Machine) doRecv(t *Thread, f *Frame, i *ssa.UnOp, x Value) Value {
	ch := x.(*ChanObj)
	if ch == nil {
		m.block(t, &waitRec{kind: "nilchan", what: "recv on nil chan@" + m.pos(i), ins: i})
		f.PC-- // compensated by caller's increment
		return nil
	}
	_, v, ok, done := m.selectOp(t, []selCase{{ch: ch}}, true, i)
	if !done {
		if !f.unwinding {
			f.PC-- // caller increments; stay on this instruction
		}
		return nil
	}
	if i.CommaOk {
		return Tuple{v, smt.Bool(ok)}
	}
	return v
}

func (m *Machine) doSelect(t *Thread, f *Frame, i *ssa.Select) {
	cases := make([]selCase, len(i.States))
	for k, st := range i.States {
		ch, _ := m.get(f, st.Chan).(*ChanObj)
		cases[k] = selCase{ch: ch, send: st.Dir == types.SendOnly}
		if cases[k].send {
			cases[k].val = m.get(f, st.Send)
		}
	}
	idx, v, ok, done := m.selectOp(t, cases, i.Blocking, i)
	if !done {
		return
	}
	// result tuple: (index, recvOk, r_0 ... r_n-1) for each receive state
	res := Tuple{smt.BV(64, uint64(int64(idx))), smt.Bool(ok)}
	for k, st := range i.States {
		if st.Dir == types.RecvOnly {
			if k == idx {
				res = append(res, v)
			} else {
				res = append(res, m.zero(st.Chan.Type().Underlying().(*types.Chan).Elem()))
			}
		}
	}
	f.Regs[i] = res
	f.PC++
}

// recordable reports whether the next instruction of t is a visible operation that the native instrumenter gates with
// verifSched(): a mutex Lock/RLock, Once.Do, WaitGroup.Wait, channel send/receive/select/close, time.Sleep or verifYield
// located in a file of the harness package.
func (m *Machine) recordable(t *Thread) bool {
	f := t.top()
	if f == nil || f.unwinding {
		return false
	}
	ins := f.Block.Instrs[f.PC]
	ok := false
	switch i := ins.(type) {
	case *ssa.Send, *ssa.Select:
		ok = true
	case *ssa.UnOp:
		ok = i.Op == token.ARROW
	case *ssa.Call:
		if i.Call.IsInvoke() {
			return false
		}
		switch v := i.Call.Value.(type) {
		case *ssa.Function:
			ok = InstrumentedCallees[v.String()] || v.Name() == "verifYield"
		case *ssa.Builtin:
			ok = v.Name() == "close"
		}
	}
	return ok && m.P.inHarnessPkg(ins)
}

// InstrumentedCallees are the calls the native instrumenter precedes with verifSched().
var InstrumentedCallees = map[string]bool{
	"(*sync.Mutex).Lock":     true,
	"(*sync.RWMutex).Lock":   true,
	"(*sync.RWMutex).RLock":  true,
	"(*sync.Once).Do":        true,
	"(*sync.WaitGroup).Wait": true,
	"time.Sleep":             true,
}
