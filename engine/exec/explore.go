package exec

import (
	"fmt"
	"os"
	"runtime/debug"
	"sort"
	"strings"
	"sync"
	"time"

	"golang.org/x/tools/go/ssa"

	"verif/engine/smt"
)

// HarnessResult aggregates all paths of one harness.
type HarnessResult struct {
	Name                string
	Cfg                 *HarnessCfg
	Paths               int
	PathsOK             int
	Infeasible          int
	Inconclusive        int
	InconclusiveReasons map[string]int
	UnwindFail          int
	Asserts             int
	Discharged          int
	PanicChecks         int
	Undischarged        []string
	Reached             map[string]int
	Violations          []*Violation
	ViolationCount      map[string]int
	Funcs               map[string]int
	Stubs               map[string]int
	Assumptions         map[string]bool
	SymbolicPaths       int
	Samples             []string
	PassWitnesses       []*Violation
	Steps               int
	MaxThreads          int
	VisibleOps          int
	Solver              smt.Stats
	UnknownKept         int
	ModelHits           int
	Wall                time.Duration
	Truncated           bool
	Observations        map[string]int
	DistinctPCs         int
	// cross-solver re-check of sampled `unsat` answers to assertion queries (cvc5 and z3 5.1 on the standalone script)
	CrossChecked  int
	CrossAgreed   int
	CrossUnknown  int
	CrossDisagree []string
}

type Explorer struct {
	P              *Program
	Fn             *ssa.Function
	Cfg            *HarnessCfg
	mu             sync.Mutex
	cond           *sync.Cond
	work           [][]Decision
	active         int
	Res            *HarnessResult
	MaxPaths       int
	Deadline       time.Time
	stop           bool
	Verbose        bool
	Workers        int
	SolverKind     string
	QueryTimeoutMs int
	dumpN          int
	CrossBudget    int            // how many unsat assertion answers to re-ask other solvers (per harness)
	crossSeen      map[string]int // per assertion site
}

// crossCheck re-asks a second and a third solver an assertion query that the main solver answered `unsat`: the first
// answer of every assertion site, then every 50th, within the harness budget. A `sat` from another solver is reported
// and leaves the assertion undischarged.
func (e *Explorer) crossCheck(m *Machine, neg *smt.Term, site string) bool {
	e.mu.Lock()
	if e.crossSeen == nil {
		e.crossSeen = map[string]int{}
	}
	n := e.crossSeen[site]
	e.crossSeen[site] = n + 1
	take := (n == 0 || n%50 == 0) && e.Res.CrossChecked < e.CrossBudget
	if take {
		e.Res.CrossChecked++
	}
	e.mu.Unlock()
	if !take {
		return true
	}
	agreed, disagreed := 0, ""
	for _, kind := range []string{"cvc5", "z3-new"} {
		r, _ := smt.RunScript(kind, m.Sol.Script(neg, kind), 20000)
		switch r {
		case smt.Unsat:
			agreed++
		case smt.Sat:
			disagreed = kind
		}
	}
	e.mu.Lock()
	defer e.mu.Unlock()
	switch {
	case disagreed != "":
		e.Res.CrossDisagree = append(e.Res.CrossDisagree, fmt.Sprintf("%s: z3 says unsat, %s says sat", site, disagreed))
		return false
	case agreed > 0:
		e.Res.CrossAgreed++
	default:
		e.Res.CrossUnknown++
	}
	return true
}

func (e *Explorer) push(p []Decision) {
	e.mu.Lock()
	e.work = append(e.work, p)
	e.mu.Unlock()
	e.cond.Signal()
}

func (e *Explorer) noteUnknown(kind, msg string) {
	e.mu.Lock()
	e.Res.UnknownKept++
	if msg != "" && len(e.Res.Undischarged) < 20 && strings.Contains(msg, "error") {
		e.Res.Undischarged = append(e.Res.Undischarged, "solver: "+msg)
	}
	e.mu.Unlock()
}

func (e *Explorer) noteModelHit() {
	e.mu.Lock()
	e.Res.ModelHits++
	e.mu.Unlock()
}

func (e *Explorer) violationSeen(site string) int {
	e.mu.Lock()
	defer e.mu.Unlock()
	return e.Res.ViolationCount[site]
}

func NewHarnessCfg(name string, doc map[string]string, tier string) *HarnessCfg {
	cfg := &HarnessCfg{Name: name, Tier: tier, Unwind: 16, MaxSteps: 400000, MaxVisOps: 60, Preempt: 2, Opts: doc}
	geti := func(k string, def int) int {
		v, ok := doc[k+"."+tier]
		if !ok {
			v, ok = doc[k]
		}
		if !ok {
			return def
		}
		var n int
		fmt.Sscanf(v, "%d", &n)
		return n
	}
	cfg.Unwind = geti("unwind", cfg.Unwind)
	cfg.MaxSteps = geti("steps", cfg.MaxSteps)
	cfg.MaxVisOps = geti("visops", cfg.MaxVisOps)
	cfg.Preempt = geti("preempt", cfg.Preempt)
	if _, ok := doc["go"]; ok {
		cfg.GoRun = doc["go"] == "run"
	}
	return cfg
}

// Run explores all paths of the harness.
func (e *Explorer) Run() *HarnessResult {
	t0 := time.Now()
	e.cond = sync.NewCond(&e.mu)
	e.Res = &HarnessResult{Name: e.Fn.Name(), Cfg: e.Cfg, Reached: map[string]int{}, Funcs: map[string]int{}, Stubs: map[string]int{},
		Assumptions: map[string]bool{}, ViolationCount: map[string]int{}, InconclusiveReasons: map[string]int{}, Observations: map[string]int{}}
	e.work = [][]Decision{nil}
	if e.Workers <= 0 {
		e.Workers = 1
	}
	// first path single-threaded (builds SSA lazily, warms caches)
	var wg sync.WaitGroup
	first := make(chan struct{})
	for w := 0; w < e.Workers; w++ {
		wg.Add(1)
		go func(w int) {
			defer wg.Done()
			if w > 0 {
				<-first
			}
			sol, err := smt.NewSolver(e.SolverKind, e.QueryTimeoutMs)
			if err != nil {
				fmt.Fprintln(os.Stderr, "solver start failed:", err)
				if w == 0 {
					close(first)
				}
				return
			}
			defer sol.Close()
			firstDone := w != 0
			for {
				e.mu.Lock()
				for len(e.work) == 0 && e.active > 0 && !e.stop {
					e.cond.Wait()
				}
				if e.stop || (len(e.work) == 0 && e.active == 0) {
					e.mu.Unlock()
					e.cond.Broadcast()
					break
				}
				p := e.work[len(e.work)-1]
				e.work = e.work[:len(e.work)-1]
				e.active++
				e.mu.Unlock()

				res := e.runPath(sol, p)

				e.mu.Lock()
				e.merge(res)
				e.active--
				if e.MaxPaths > 0 && e.Res.Paths >= e.MaxPaths {
					e.stop = true
					e.Res.Truncated = true
				}
				if !e.Deadline.IsZero() && time.Now().After(e.Deadline) {
					e.stop = true
					e.Res.Truncated = true
				}
				e.mu.Unlock()
				e.cond.Broadcast()
				if !firstDone {
					firstDone = true
					close(first)
				}
			}
			if !firstDone {
				close(first)
			}
			e.mu.Lock()
			s := sol.Stats
			e.Res.Solver.Queries += s.Queries
			e.Res.Solver.Sat += s.Sat
			e.Res.Solver.Unsat += s.Unsat
			e.Res.Solver.Unknown += s.Unknown
			e.Res.Solver.Errors += s.Errors
			e.Res.Solver.SolveTime += s.SolveTime
			e.mu.Unlock()
		}(w)
	}
	wg.Wait()
	e.Res.Wall = time.Since(t0)
	if e.stop && len(e.work) > 0 {
		e.Res.Truncated = true
	}
	return e.Res
}

func (e *Explorer) merge(r *PathResult) {
	R := e.Res
	R.Paths++
	R.Steps += r.Steps
	switch r.End.kind {
	case endOK:
		R.PathsOK++
	case endInfeasible:
		R.Infeasible++
	case endUnwind:
		R.UnwindFail++
		R.Inconclusive++
		R.InconclusiveReasons[r.End.msg]++
	default:
		R.Inconclusive++
		R.InconclusiveReasons[r.End.msg]++
	}
	R.Asserts += r.Asserts
	R.Discharged += r.Discharged
	R.PanicChecks += r.PanicChecks
	for _, u := range r.Undischarged {
		if len(R.Undischarged) < 50 {
			R.Undischarged = append(R.Undischarged, u)
		}
	}
	for k := range r.Reached {
		R.Reached[k]++
	}
	for _, v := range r.Violations {
		R.ViolationCount[v.Site]++
		if R.ViolationCount[v.Site] <= 2 && len(v.Inputs) >= 0 && v.Msg != "" {
			R.Violations = append(R.Violations, v)
		}
	}
	for k, n := range r.Funcs {
		R.Funcs[k] += n
	}
	for k, n := range r.Stubs {
		R.Stubs[k] += n
	}
	for k := range r.Assumptions {
		R.Assumptions[k] = true
	}
	if r.Symbolic {
		R.SymbolicPaths++
	}
	if r.Sample != "" && len(R.Samples) < 6 {
		R.Samples = append(R.Samples, r.Sample)
		if r.PassWitness != nil {
			R.PassWitnesses = append(R.PassWitnesses, r.PassWitness)
		}
	}
	if r.Threads > R.MaxThreads {
		R.MaxThreads = r.Threads
	}
	R.VisibleOps += r.VisibleOps
	if len(r.Observations) > 0 {
		R.Observations[strings.Join(r.Observations, " ; ")]++
	}
	if e.Verbose {
		fmt.Fprintf(os.Stderr, "  path %d: end=%d %s decisions=%d steps=%d viol=%d\n", R.Paths, r.End.kind, r.End.msg, len(r.Decisions), r.Steps, len(r.Violations))
		if os.Getenv("SV_LABELS") != "" {
			for _, d := range r.Decisions {
				fmt.Fprintf(os.Stderr, "      %d/%d %s\n", d.Pick, d.N, d.Lbl)
			}
		}
	}
}

func (e *Explorer) runPath(sol *smt.Solver, prefix []Decision) (res *PathResult) {
	sol.Reset()
	m := &Machine{P: e.P, Sol: sol, Cfg: e.Cfg, Ex: e, prefix: prefix,
		globals: map[*ssa.Global]Ptr{}, initState: map[*ssa.Package]int{}, syncObjs: map[Ptr]*syncObj{},
		strIntern: map[string]Str{}, access: map[raceKey]*accessRec{}, violSeen: map[string]bool{}}
	m.Res = &PathResult{Reached: map[string]bool{}, Funcs: map[string]int{}, Stubs: map[string]int{}, Assumptions: map[string]bool{}}
	res = m.Res
	defer func() {
		res.Steps = m.steps
		res.Decisions = m.decisions
		if r := recover(); r != nil {
			switch x := r.(type) {
			case pathEnd:
				res.End = x
			case unsupportedErr:
				res.End = pathEnd{endUnsupported, x.msg}
			default:
				res.End = pathEnd{endInternal, fmt.Sprintf("internal error: %v\n%s", r, firstLines(string(debug.Stack()), 30))}
			}
		}
		if res.End.kind == endOK && res.Sample == "" {
			res.Sample = m.samplePath()
		}
	}()
	main := &Thread{ID: 0, Name: "harness", HeldMu: map[Ptr]int{}, NID: 0}
	m.threads = []*Thread{main}
	m.tick(main)
	m.cur = main
	m.ensureInit(e.Fn.Pkg)
	m.cur = main
	m.invoke(main, &Closure{Fn: e.Fn}, nil, nil, func(Value) {}, nil)
	m.run()
	// normal end: goroutines left runnable cannot exist here (run() returns at quiescence)
	return res
}

func firstLines(s string, n int) string {
	l := strings.Split(s, "\n")
	if len(l) > n {
		l = l[:n]
	}
	return strings.Join(l, "\n")
}

// samplePath renders the decisions of this path plus one concrete witness of its inputs.
func (m *Machine) samplePath() string {
	if len(m.inputs) == 0 && len(m.decisions) == 0 {
		return ""
	}
	if m.Ex.sampleBudget() <= 0 {
		return ""
	}
	vals, ok := m.modelInputs(nil)
	if !ok {
		return ""
	}
	if len(m.Res.Violations) == 0 {
		// a passing path with a concrete witness: kept for native validation (the compiled harness must pass on it too)
		m.Res.PassWitness = &Violation{Harness: m.Cfg.Name, Kind: "pass", Site: m.Cfg.Name + "|pass", Inputs: vals,
			Sched: append([]int(nil), m.sched...), SchedPos: append([]string(nil), m.schedPos...)}
	}
	var sb strings.Builder
	fmt.Fprintf(&sb, "path with %d decisions, %d path constraints; witness inputs: ", len(m.decisions), len(m.pc))
	sb.WriteString(renderInputs(vals))
	if len(m.Res.Observations) > 0 {
		sb.WriteString(" ; observed: " + strings.Join(m.Res.Observations, " ; "))
	}
	return sb.String()
}

func (e *Explorer) sampleBudget() int {
	e.mu.Lock()
	defer e.mu.Unlock()
	return 6 - len(e.Res.Samples)
}

func renderInputs(vals []ReplayVal) string {
	var parts []string
	for _, v := range vals {
		switch v.Kind {
		case "bytes":
			var sb strings.Builder
			sb.WriteString("bytes\"")
			for _, b := range v.Vals {
				if b >= 32 && b < 127 && b != '"' && b != '\\' {
					sb.WriteByte(byte(b))
				} else {
					fmt.Fprintf(&sb, "\\x%02x", b)
				}
			}
			sb.WriteString("\"")
			parts = append(parts, sb.String())
		default:
			parts = append(parts, fmt.Sprintf("%s=%d", v.Kind, v.Val))
		}
		if len(parts) > 40 {
			parts = append(parts, "...")
			break
		}
	}
	return strings.Join(parts, " ")
}

// modelInputs asks the solver for a model of PC ∧ extra and maps it onto the inputs in creation order.
func (m *Machine) modelInputs(extra *smt.Term) ([]ReplayVal, bool) {
	var vars []*smt.Term
	for _, in := range m.inputs {
		if in.Var != nil {
			vars = append(vars, in.Var)
		}
		vars = append(vars, in.Vars...)
	}
	r, model := m.Sol.Model(extra, vars)
	if r != smt.Sat {
		return nil, false
	}
	var out []ReplayVal
	for _, in := range m.inputs {
		switch {
		case in.Kind == "choose":
			out = append(out, ReplayVal{Kind: "choose", Val: in.Val})
		case in.Kind == "bytes":
			rv := ReplayVal{Kind: "bytes", Vals: []uint64{}}
			for _, v := range in.Vars {
				rv.Vals = append(rv.Vals, model[v.Name])
			}
			out = append(out, rv)
		default:
			out = append(out, ReplayVal{Kind: in.Kind, Val: model[in.Var.Name]})
		}
	}
	return out, true
}

// violation records a property violation on this path. extra (may be nil) is the additional condition under which it occurs.
func (m *Machine) violation(kind, msg, site string, extra *smt.Term) {
	site = m.Cfg.Name + "|" + site
	v := &Violation{Harness: m.Cfg.Name, Kind: kind, Msg: msg, Site: site}
	if m.violSeen[site] {
		return
	}
	m.violSeen[site] = true
	if m.Ex.violationSeen(site) >= 2 {
		// already have witnesses for this site; count only
		m.Res.Violations = append(m.Res.Violations, &Violation{Harness: m.Cfg.Name, Kind: kind, Site: site})
		return
	}
	vals, ok := m.modelInputs(extra)
	if !ok {
		m.Res.Undischarged = append(m.Res.Undischarged, fmt.Sprintf("%s: %s (no model: solver unknown)", kind, msg))
		return
	}
	v.Inputs = vals
	v.Sched = append([]int(nil), m.sched...)
	v.SchedPos = append([]string(nil), m.schedPos...)
	v.Trace = append([]string(nil), m.trace...)
	var ds []string
	for _, d := range m.decisions {
		ds = append(ds, fmt.Sprintf("%d/%d", d.Pick, d.N))
	}
	v.PathID = strings.Join(ds, ",")
	m.Res.Violations = append(m.Res.Violations, v)
}

// assertCond handles verifAssert.
func (m *Machine) assertCond(cond *smt.Term, msg string, ins ssa.Instruction) {
	m.Res.Asserts++
	if cond.IsTrue() {
		m.Res.Discharged++
		return
	}
	neg := smt.Not(cond)
	var r smt.Result
	if neg.IsTrue() {
		r = smt.Sat
	} else {
		r = m.Sol.Check(neg)
	}
	switch r {
	case smt.Unsat:
		if m.Ex.CrossBudget > 0 && !m.Ex.crossCheck(m, neg, msg) {
			m.Res.Undischarged = append(m.Res.Undischarged, fmt.Sprintf("assert %q at %s: solvers disagree (unsat vs sat)", msg, m.pos(ins)))
			m.assume(cond)
			return
		}
		m.Res.Discharged++
		return
	case smt.Unknown:
		if d := os.Getenv("SV_DUMP_UNKNOWN"); d != "" {
			m.Ex.dumpN++
			os.WriteFile(fmt.Sprintf("%s/unknown-%s-%d.smt2", d, m.Cfg.Name, m.Ex.dumpN), []byte(m.Sol.Script(neg, "z3")), 0o644)
		}
		m.Res.Undischarged = append(m.Res.Undischarged, fmt.Sprintf("assert %q at %s: solver unknown (%s)", msg, m.pos(ins), m.Sol.LastErr))
		m.assume(cond)
		return
	}
	m.violation("assert", fmt.Sprintf("assertion %q fails at %s", msg, m.pos(ins)), "assert:"+msg, neg)
	// continue on the side where the assertion holds, if any
	if cond.IsFalse() || !m.feasible(cond) {
		m.end(endOK, "assertion fails on every input of this path")
	}
	m.assume(cond)
}

// SortedKeys helper for evidence.
func SortedKeys(mp map[string]int) []string {
	var ks []string
	for k := range mp {
		ks = append(ks, k)
	}
	sort.Strings(ks)
	return ks
}
